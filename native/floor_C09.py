"""
Bounded stand-in for C09 (attack-graph structure and lookup indexes stay consistent in any history).

Real code under test: every public mutator of maltoolbox.attackgraph.AttackGraph (add_node, remove_node, add_attacker,
remove_attacker, attach_attackers, regenerate_graph, __deepcopy__, _to_dict/_from_dict), Attacker / AttackGraphNode
compromise / undo_compromise, apriori.calculate_viability_and_necessity and prune_unviable_and_unnecessary_nodes, chained
into histories on real objects.

Reference: an abstract state (nodes by id, edge bag, attackers by id with entry / reached sets) updated per operation
as the property statement and the operation's documented meaning say; after every step the real graph must satisfy
wf_graph (W1..W5 of DESIGN.md section 3.1), answer lookups consistently, and have exactly the reference's view.
Deep copy and save/load only have to produce a well-formed graph here (their equality is C14 / C10): the reference is
re-read from the new graph and the history continues on it.
"""
from __future__ import annotations
import copy, itertools, json, random, sys, os
from collections import Counter
sys.path.insert(0, os.path.dirname(os.path.abspath(__file__)))
import common
from common import CaseResult
import lib_aghist as L

PROPERTY = "C09"
AGF = "maltoolbox.attackgraph.attackgraph:AttackGraph."
ATT = "maltoolbox.attackgraph.attacker:Attacker."
APR = "maltoolbox.attackgraph.analyzers.apriori:"
SCOPE = {
    "quick": "every applicable history of <=3 operations over a 41-letter alphabet (add_node x {auto id, lowest free id, high "
             "free id, used id} x {isolated, linked under the first node}; re-add of the node removed last (edge lists cleared); remove_node of "
             "node 0/1/2; add_attacker x {auto, id 0, high id, clashing id} x {no steps, 1 step, 2 steps, unknown reached id, "
             "unknown entry id}; remove_attacker 0/1; attach_attackers; compromise/undo from attacker side and node side; "
             "calculate_viability_and_necessity; prune; deepcopy; save/load with and without model; regenerate_graph) from 7 "
             "start graphs of <=3 nodes (5 hand-built incl. empty, self loop, double edge, cycle, 2 attackers, adjacent prunable nodes; 2 generated "
             "from a tiny language + model with 1-2 model attackers); + 3000 seeded random histories of 4-12 operations on "
             "generated graphs of 3 and 14 nodes",
    "thorough": "as quick; + every applicable history of 4 operations from the two smallest hand-built starts (467116), "
                "a seeded 6% sample of the 5.8 million 4-operation histories from the other five starts; + 60000 random histories "
                "of 4-16 operations",
}
EXHAUSTIVE = {"quick": True, "thorough": False}
RULE = ("case = (start graph, list of operations); operations whose index arguments do not exist at run time end the history "
        "(the case then equals a shorter one); non-trivial when some operation changed the abstract state, raised, or "
        "replaced the graph object; distinct = distinct (start, sequence of operation kinds with outcome)")
ASSUMPTIONS = ["reference = abstract state updated per operation from the property statement / docstrings; auto ids only "
               "have to be fresh ints, explicit free ids must be honoured",
               "wf_graph = W1..W5 of DESIGN.md section 3.1 with membership by identity",
               "edges of freshly added nodes are written by the harness in mirrored form after add_node succeeded "
               "(as _generate_graph and _from_dict do)",
               "after deepcopy / save-load the reference is re-read from the new (well-formed) graph",
               "a history stops at its first failing step",
               "re-inserting, with add_node, a node object that was removed earlier (edge lists cleared by the client) is a "
               "legal call and must get a fresh id",
               "labels after calculate_viability_and_necessity are taken from the graph (their values are C08); everything "
               "else must be unchanged by it",
               "rejected calls may advance next_node_id / next_attacker_id (counters are not compared for rejected calls)"]
BUDGET_S = {"quick": 100, "thorough": 1500}
CHUNK = 1000

# ---------------------------------------------------------------------------------------------------
# start graphs

T, F = True, False
STARTS = {
    "H0": {"hand": {"nodes": [], "edges": [], "attackers": []}},
    "H1": {"hand": {"nodes": [["or", T, T]], "edges": [[0, 0]], "attackers": []}},
    "H2": {"hand": {"nodes": [["defense", T, T, 1.0], ["and", T, T]], "edges": [[0, 1]],
                    "attackers": [["h0", [1], [1]]]}},
    "H3": {"hand": {"nodes": [["or", T, T], ["and", F, T], ["or", T, F]],
                    "edges": [[0, 1], [0, 1], [1, 1], [1, 2], [2, 0]],
                    "attackers": [["h0", [0], [0, 1]], ["h1", [], [1]]]}},
    "H4": {"hand": {"nodes": [["defense", F, T, 1.0], ["and", F, T], ["and", F, T]], "edges": [[0, 1], [0, 2], [1, 2]],
                    "attackers": []}},
    "G1": {"gen": {"lang": "one", "model": {
        "assets": [["A", "a0", None, {"d": 1.0}]], "links": [],
        "attackers": [["m0", None, [[0, ["s", "nosuch"]]]]]}}},
    "G2": {"gen": {"lang": "two", "model": {
        "assets": [["A", "a0", None], ["B", "b0", None]], "links": [[[0], [0]]],
        "attackers": [["m0", None, [[0, ["s"]], [1, ["t", "u"]]]], ["m1", None, [[1, ["t"]]]]]}}},
    "GB": {"gen": {"lang": "big", "model": {
        "assets": [["A", "a0", None, {"d": 1.0}], ["A", "a1", None, {"d": 0.0}],
                   ["B", "b0", None, {"f": 0.0}], ["B", "b1", None, {"f": 1.0}]],
        "links": [[[0], [0]], [[1], [0, 1]]],
        "attackers": [["m0", None, [[0, ["s"]], [3, ["t", "nosuch"]]]], ["m1", None, [[1, ["x", "s"]]]]]}}},
}
# link index convention for "gen" models: [[A idxs], [B idxs]] where B idxs are positions in the *assets* list
for _s in STARTS.values():
    if "gen" in _s:
        m = _s["gen"]["model"]
        nA = sum(1 for a in m["assets"] if a[0] == "A")
        m["links"] = [[l[0], [nA + k for k in l[1]]] for l in m["links"]]
# static facts used by the generator for applicability (checked against the real start graph in run_case)
FACTS = {"H0": (0, 0, 0), "H1": (1, 0, 0), "H2": (2, 1, 0), "H3": (3, 2, 0), "H4": (3, 0, 0), "G1": (3, 0, 1), "G2": (3, 0, 2),
         "GB": (14, 0, 2)}            # (nodes, attackers, model attackers)

# ---------------------------------------------------------------------------------------------------
# alphabet

ALPHABET = (
    [["an", idm, link] for idm in ("auto", "lo", "hi", "used") for link in (0, 1)] +
    [["readd"]] +
    [["rn", i] for i in (0, 1, 2)] +
    [["aa", "auto", s] for s in ("none", "n0", "n0n1", "badr", "bade")] +
    [["aa", "zero", s] for s in ("none", "n0", "n0n1")] +
    [["aa", "hi", s] for s in ("none", "n0")] +
    [["aa", "clash", s] for s in ("none", "n0")] +
    [["ra", j] for j in (0, 1)] +
    [["attach"]] +
    [["c", 0, 0, "A"], ["c", 1, 0, "N"], ["c", 0, -1, "N"], ["c", 1, -1, "A"]] +
    [["u", 0, 0, "A"], ["u", 1, 0, "N"], ["u", 0, -1, "N"], ["u", 1, -1, "A"]] +
    [["calc"], ["prune"], ["copy"], ["sl"], ["slnm"], ["regen"]]
)


class Tracker:
    """upper bounds used only to skip histories that can never be applicable"""
    __slots__ = ("nn", "na", "model", "lang", "rm", "gen_n", "matt")

    def __init__(self, start):
        n, a, m = FACTS[start]
        self.nn, self.na = n, a
        self.model = self.lang = start.startswith("G")
        self.rm = False
        self.gen_n, self.matt = n, m

    def clone(self):
        t = Tracker.__new__(Tracker)
        for s in Tracker.__slots__:
            setattr(t, s, getattr(self, s))
        return t

    def applicable(self, op):
        k = op[0]
        if k == "an":
            return self.nn >= 1 or (op[1] != "used" and op[2] == 0)
        if k == "readd":
            return self.rm
        if k == "rn":
            return (op[1] >= 0 and op[1] < self.nn) or (op[1] == -1 and self.nn >= 2)
        if k == "aa":
            if op[1] == "clash" and self.na < 1:
                return False
            need = {"none": 0, "n0": 1, "n0n1": 2, "badr": 0, "bade": 0}[op[2]]
            return self.nn >= need
        if k == "ra":
            return op[1] < self.na
        if k in ("c", "u"):
            return op[1] < self.na and ((op[2] >= 0 and op[2] < self.nn) or (op[2] == -1 and self.nn >= 2))
        if k == "slnm":
            return self.model
        if k == "regen":
            return self.model and self.lang
        return True

    def apply(self, op):
        k = op[0]
        if k == "an" and op[1] != "used": self.nn += 1
        elif k == "readd": self.nn += 1; self.rm = False
        elif k == "rn": self.nn -= 1; self.rm = True
        elif k == "aa" and op[1] != "clash" and op[2] not in ("badr", "bade"): self.na += 1
        elif k == "ra": self.na -= 1
        elif k == "attach" and self.model: self.na += self.matt
        elif k == "copy": self.rm = False
        elif k == "sl": self.rm = False; self.lang = False
        elif k == "slnm": self.rm = False; self.lang = False; self.model = False
        elif k == "regen": self.nn = self.gen_n; self.na = 0; self.rm = False


def _histories(start, maxlen, alphabet=ALPHABET):
    def rec(prefix, tr):
        if prefix:
            yield prefix
        if len(prefix) == maxlen:
            return
        for op in alphabet:
            if tr.applicable(op):
                t2 = tr.clone(); t2.apply(op)
                yield from rec(prefix + [op], t2)
    yield from rec([], Tracker(start))


def _random_history(rnd, start, length):
    tr = Tracker(start)
    ops = []
    tries = 0
    while len(ops) < length and tries < 200:
        tries += 1
        kind = rnd.choice(["an", "an", "readd", "rn", "rn", "aa", "aa", "ra", "attach", "c", "c", "c", "u", "calc", "prune",
                           "copy", "sl", "slnm", "regen"])
        if kind == "an":
            op = ["an", rnd.choice(["auto", "auto", "lo", "hi", "used"]), rnd.choice([0, 1])]
        elif kind == "rn":
            op = ["rn", rnd.randrange(max(1, tr.nn))]
        elif kind == "aa":
            op = ["aa", rnd.choice(["auto", "auto", "zero", "hi", "clash"]), rnd.choice(["none", "n0", "n0n1", "n0n1", "badr", "bade"])]
        elif kind == "ra":
            op = ["ra", rnd.randrange(max(1, tr.na))]
        elif kind in ("c", "u"):
            op = [kind, rnd.randrange(max(1, tr.na)), rnd.randrange(max(1, tr.nn)), rnd.choice("AN")]
        else:
            op = [kind]
        if tr.applicable(op):
            tr.apply(op)
            ops.append(op)
    return ops


def cases(tier, seed):
    rnd = random.Random(seed)
    short = ("H0", "H1", "H2", "H3", "H4", "G1", "G2")
    for st in short:
        for h in _histories(st, 3):
            yield {"start": st, "ops": h}
    nrand = 3000 if tier == "quick" else 60000
    for k in range(nrand):
        st = "GB" if k % 3 else "G2"
        yield {"start": st, "ops": _random_history(rnd, st, rnd.randint(4, 12 if tier == "quick" else 16))}
    if tier == "thorough":
        for st in short:
            full = st in ("H0", "H1")
            for h in _histories(st, 4):
                if len(h) == 4 and (full or rnd.random() < 0.06):
                    yield {"start": st, "ops": h}


# ---------------------------------------------------------------------------------------------------
# reference state

class Ref:
    def __init__(self, g, model, lang):
        self.model, self.lang = model, lang
        self.ever_ids, self.ever_names, self.ever_aids = set(), set(), set()
        self.sync(g)

    def sync(self, g):
        v = L.view(g)
        self.nodes = v["nodes"]
        self.edges = Counter(v["edges"])
        self.att = {k: [a[0], set(a[1]), set(a[2])] for k, a in v["att"].items()}
        self.note()

    def note(self):
        self.ever_ids |= set(self.nodes)
        self.ever_names |= {v[0] for v in self.nodes.values()}
        self.ever_aids |= set(self.att)

    def as_view(self):
        return {"nodes": self.nodes, "edges": {e: c for e, c in self.edges.items() if c},
                "att": {k: [a[0], sorted(a[1]), sorted(a[2])] for k, a in self.att.items()}}

    def drop_node(self, k):
        del self.nodes[k]
        for e in [e for e in self.edges if k in e]:
            del self.edges[e]
        for a in self.att.values():
            a[1].discard(k); a[2].discard(k)

    def is_clean(self, k):
        return not any(k in e and c for e, c in self.edges.items()) and not any(k in a[2] or k in a[1] for a in self.att.values())

    def fingerprint(self):
        return json.dumps([sorted((k, v) for k, v in self.nodes.items()), sorted(self.edges.items()),
                           sorted((k, a[0], sorted(a[1]), sorted(a[2])) for k, a in self.att.items())], default=str)


def _diff(want, got):
    """short classification of the first difference between two views"""
    if set(want["nodes"]) != set(got["nodes"]):
        return "node-set", "node ids: expected %s got %s" % (sorted(want["nodes"]), sorted(got["nodes"]))
    for k in want["nodes"]:
        if want["nodes"][k] != got["nodes"][k]:
            return "node-attributes", "node %s: expected %s got %s" % (k, want["nodes"][k], got["nodes"][k])
    if want["edges"] != got["edges"]:
        return "edges", "edges: expected %s got %s" % (sorted(want["edges"].items()), sorted(got["edges"].items()))
    if set(want["att"]) != set(got["att"]):
        return "attacker-set", "attacker ids: expected %s got %s" % (sorted(want["att"]), sorted(got["att"]))
    for k in want["att"]:
        if want["att"][k] != got["att"][k]:
            w, g_ = want["att"][k], got["att"][k]
            what = "name" if w[0] != g_[0] else "entry-points" if w[1] != g_[1] else "reached"
            return "attacker-" + what, "attacker %s: expected %s got %s" % (k, w, g_)
    return None, ""


# ---------------------------------------------------------------------------------------------------

def opname(op):
    k = op[0]
    if k == "an": return "an-" + op[1]
    if k == "aa": return "aa-unknown-node-id" if op[2] in ("badr", "bade") else "aa-" + op[1]
    return k


FN_OF = {"an": AGF + "add_node", "readd": AGF + "add_node", "rn": AGF + "remove_node", "aa": AGF + "add_attacker",
         "ra": AGF + "remove_attacker", "attach": AGF + "attach_attackers", "c": ATT + "compromise",
         "u": ATT + "undo_compromise", "calc": APR + "calculate_viability_and_necessity",
         "prune": APR + "prune_unviable_and_unnecessary_nodes", "copy": AGF + "__deepcopy__", "sl": AGF + "_from_dict",
         "slnm": AGF + "_from_dict", "regen": AGF + "regenerate_graph"}


def run_case(recipe):
    from maltoolbox.attackgraph import AttackGraph, AttackGraphNode, Attacker
    from maltoolbox.exceptions import AttackGraphException
    from maltoolbox.attackgraph.analyzers.apriori import calculate_viability_and_necessity, \
        prune_unviable_and_unnecessary_nodes
    r = CaseResult()
    start = STARTS[recipe["start"]]
    lg = model = None
    mrec = None
    if "hand" in start:
        g, _n, _a = L.build_hand(start["hand"])
    else:
        g, lg, model = L.build_generated(start["gen"])
        mrec = start["gen"]["model"]
    if (len(g.nodes), len(g.attackers)) != FACTS[recipe["start"]][:2]:
        raise RuntimeError("harness: FACTS out of date for %s: %d nodes %d attackers" % (recipe["start"], len(g.nodes), len(g.attackers)))
    pre = L.wf_detail(g)
    if pre:
        # a start graph that is not well-formed is a finding about generation, reported as such
        for (cl, det) in pre:
            r.check("C09." + cl, False, AGF + "_generate_graph", "start graph: " + det, "start:" + det)
        return r
    ref = Ref(g, model is not None, lg is not None)
    created_n = created_a = 0
    last_removed = None
    trace = []
    nontrivial = False
    ALLOWED_AA = (ValueError, AttackGraphException, LookupError)

    for step, op in enumerate(recipe["ops"]):
        kind = op[0]
        fn = FN_OF[kind]
        on = opname(op)
        where = "step %d %s" % (step, op)
        nn, na = len(g.nodes), len(g.attackers)

        def idx(i, n):
            return i if (0 <= i < n) else (n - 1 if (i == -1 and n >= 2) else None)

        # ---- resolve arguments (harness level); an operation whose arguments do not exist ends the history
        args = None
        if kind == "an":
            if (op[1] == "used" or op[2]) and nn == 0: break
            k = {"auto": None,
                 "lo": next(i for i in itertools.count() if i not in ref.nodes),
                 "hi": max(ref.ever_ids | {-1}) + 3,
                 "used": g.nodes[0].id if nn else None}[op[1]]
            args = (AttackGraphNode(type="or", name="x%d" % created_n), k, g.nodes[0] if op[2] else None)
            created_n += 1
        elif kind == "readd":
            if last_removed is None: break
        elif kind == "rn":
            i = idx(op[1], nn)
            if i is None: break
            args = g.nodes[i]
        elif kind == "aa":
            if op[1] == "clash" and na == 0: break
            need = {"none": 0, "n0": 1, "n0n1": 2, "badr": 0, "bade": 0}[op[2]]
            if nn < need: break
            k = {"auto": None, "zero": 0, "hi": max(ref.ever_aids | {-1}) + 3,
                 "clash": g.attackers[-1].id if na else None}[op[1]]
            bad = max(ref.ever_ids | {0}) + 50
            n0 = g.nodes[0].id if nn else None
            n1 = g.nodes[-1].id if nn else None
            entry, reached = {"none": ([], []), "n0": ([n0], [n0]), "n0n1": ([n1], [n0, n1]),
                              "badr": ([], ([n0] if nn else []) + [bad]),
                              "bade": ([bad], [n0] if nn else [])}[op[2]]
            args = (Attacker(name="atk%d" % created_a, entry_points=[], reached_attack_steps=[]), k, entry, reached)
            if k == 0 and op[2] not in ("badr", "bade"):
                on = "aa-zero"
            created_a += 1
        elif kind == "ra":
            if op[1] >= na: break
            args = g.attackers[op[1]]
        elif kind in ("c", "u"):
            i = idx(op[2], nn)
            if op[1] >= na or i is None: break
            args = (g.attackers[op[1]], g.nodes[i])
        elif kind == "slnm":
            if not ref.model: break
        elif kind == "regen":
            if not (ref.model and ref.lang): break

        before = L.snapshot(g)
        fp_before = ref.fingerprint()
        raised = None
        expect_raise = False
        extra_fail = []            # (clause, message, signature)

        # ---- run the real operation, update the reference
        try:
            if kind == "an":
                node, k, parent = args
                expect_raise = op[1] == "used"
                if k is None: g.add_node(node)
                else: g.add_node(node, k)
            elif kind == "readd":
                # the client re-inserts a node it removed earlier, as an isolated node
                last_removed.children, last_removed.parents = [], []
                g.add_node(last_removed)
            elif kind == "rn":
                g.remove_node(args)
            elif kind == "aa":
                a, k, entry, reached = args
                expect_raise = (k is not None and k in ref.att) or op[2] in ("badr", "bade")
                g.add_attacker(a, k, entry, reached)
            elif kind == "ra":
                g.remove_attacker(args)
            elif kind == "attach":
                expect_raise = not ref.model
                g.attach_attackers()
            elif kind == "c":
                if op[3] == "A": args[0].compromise(args[1])
                else: args[1].compromise(args[0])
            elif kind == "u":
                if op[3] == "A": args[0].undo_compromise(args[1])
                else: args[1].undo_compromise(args[0])
            elif kind == "calc":
                calculate_viability_and_necessity(g)
            elif kind == "prune":
                prune_unviable_and_unnecessary_nodes(g)
            elif kind == "copy":
                g = copy.deepcopy(g)
            elif kind in ("sl", "slnm"):
                d = json.loads(json.dumps(g._to_dict()))
                g = AttackGraph._from_dict(d, model if (kind == "sl" and ref.model) else None)
            elif kind == "regen":
                g.regenerate_graph()
        except Exception as e:
            raised = e

        # ---- outcome against the reference
        if expect_raise:
            okr = raised is not None and (
                (kind == "an" and isinstance(raised, ValueError)) or
                (kind == "aa" and isinstance(raised, ALLOWED_AA)) or
                (kind == "attach" and isinstance(raised, AttackGraphException)))
            if raised is None:
                extra_fail.append(("C09.reject", "%s: the call must be rejected but returned normally" % where, on + ":no-raise"))
            elif not okr:
                extra_fail.append(("C09.reject", "%s: rejected with %s: %s" % (where, type(raised).__name__, raised),
                                   on + ":wrong-exception:" + type(raised).__name__))
            elif L.snapshot(g) != before:
                extra_fail.append(("C09.reject", "%s: the call was rejected (%s) but the graph changed" % (
                    where, type(raised).__name__), on + ":state-changed"))
            if not extra_fail:
                r.check("C09.reject", True, fn)
        elif raised is not None:
            extra_fail.append(("C09.no-crash", "%s raised %s: %s" % (where, type(raised).__name__, str(raised)[:200]),
                               on + ":" + type(raised).__name__))
        else:
            r.check("C09.no-crash", True, fn)
            # successful call: update the reference
            if kind in ("an", "readd"):
                if kind == "an":
                    node, k, parent = args
                else:
                    node, k, parent = last_removed, None, None
                    last_removed = None
                if not L.isint(node.id) or node.id in ref.nodes or (k is not None and node.id != k):
                    extra_fail.append(("C09.effect", "%s: node got id %r (requested %r, ids in use %s)" % (
                        where, node.id, k, sorted(ref.nodes)), on + (":id-not-honoured" if k is not None else ":id-not-fresh")))
                else:
                    if parent is not None:       # client-side mirrored edge, as _from_dict does after add_node
                        parent.children.append(node); node.parents.append(parent)
                        ref.edges[(parent.id, node.id)] += 1
                    ref.nodes[node.id] = [node.full_name, node.type, node.is_viable, node.is_necessary]
            elif kind == "rn":
                k = args.id
                last_removed = args
                ref.drop_node(k)
            elif kind == "aa":
                a, k, entry, reached = args
                if not L.isint(a.id) or a.id in ref.att or (k is not None and a.id != k):
                    extra_fail.append(("C09.effect", "%s: attacker got id %r (requested %r, ids in use %s)" % (
                        where, a.id, k, sorted(ref.att)), on + (":id-not-honoured" if k is not None else ":id-not-fresh")))
                else:
                    ref.att[a.id] = [a.name, set(entry), set(reached)]
            elif kind == "ra":
                del ref.att[args.id]
                if args.reached_attack_steps:
                    pass        # reported through W4 (a node still lists an attacker that is not in the graph)
            elif kind == "attach":
                old = before[2]
                new = [a for a in g.attackers if id(a) not in old]
                byname = {v[0]: k for k, v in ref.nodes.items()}
                exp = [(nm, {byname[x] for x in names if x in byname}) for (nm, names) in L.expected_entry_names(mrec)]
                if [a.name for a in new] != [nm for (nm, _) in exp]:
                    extra_fail.append(("C09.effect", "%s: new attackers %s, model attackers %s" % (
                        where, [a.name for a in new], [nm for nm, _ in exp]), on + ":attacker-count"))
                else:
                    for a, (nm, ids) in zip(new, exp):
                        if not L.isint(a.id) or a.id in ref.att:
                            extra_fail.append(("C09.effect", "%s: attached attacker got id %r" % (where, a.id), on + ":id-not-fresh"))
                            break
                        ref.att[a.id] = [nm, set(ids), set(ids)]
            elif kind == "c":
                ref.att[args[0].id][2].add(args[1].id)
            elif kind == "u":
                ref.att[args[0].id][2].discard(args[1].id)
            elif kind == "calc":
                for nd in g.nodes:
                    if nd.id in ref.nodes:
                        ref.nodes[nd.id][2], ref.nodes[nd.id][3] = nd.is_viable, nd.is_necessary
            elif kind == "prune":
                for k in [k for k, v in ref.nodes.items() if v[1] in ("or", "and") and not (v[2] and v[3])]:
                    ref.drop_node(k)
            elif kind in ("copy", "sl", "slnm"):
                last_removed = None
                if kind != "copy":
                    ref.lang = False
                    ref.model = ref.model and kind == "sl"
            elif kind == "regen":
                last_removed = None
        ref.note()

        # ---- invariant, lookups, view
        wf = L.wf_detail(g)
        for cl in ("W1", "W2", "W3", "W4", "W5"):
            dets = [d for (c, d) in wf if c == cl]
            if not dets:
                r.check("C09." + cl, True, fn)
            for d in dets:
                r.check("C09." + cl, False, fn, "%s: %s" % (where, d), "%s:%s" % (on, d))
        failed = bool(wf) or bool(extra_fail)
        for (cl, msg, sig) in extra_fail:
            r.check(cl, False, fn, msg, sig)

        w1 = any(c == "W1" for (c, _) in wf) or len({n.full_name for n in g.nodes}) != len(g.nodes)
        if not w1:
            # lookups through the public API agree with the primary lists, for present and removed keys
            lok = True
            for k in sorted(ref.ever_ids | set(range(-1, 4)) | {max(ref.ever_ids | {0}) + 50}):
                if g.get_node_by_id(k) is not L.node_with_id(g, k):
                    lok = False
                    r.check("C09.lookup", False, AGF + "get_node_by_id", "%s: get_node_by_id(%r) %s" % (
                        where, k, "returns a node that is not in the graph" if g.get_node_by_id(k) is not None
                        else "misses a present node"),
                        "%s:node-id-%s" % (on, "stale" if g.get_node_by_id(k) is not None else "missing"))
            present_names = {n.full_name: n for n in g.nodes}
            for nm in sorted(ref.ever_names | {"nosuch:x"}):
                if g.get_node_by_full_name(nm) is not present_names.get(nm):
                    lok = False
                    r.check("C09.lookup", False, AGF + "get_node_by_full_name", "%s: get_node_by_full_name(%r) %s" % (
                        where, nm, "returns a node that is not in the graph" if g.get_node_by_full_name(nm) is not None
                        else "misses a present node"),
                        "%s:node-name-%s" % (on, "stale" if g.get_node_by_full_name(nm) is not None else "missing"))
            if not any(d == "two attackers share an id" or d == "attacker id not an int" for (_, d) in wf):
                for k in sorted(ref.ever_aids | set(range(-1, 4))):
                    if g.get_attacker_by_id(k) is not L.attacker_with_id(g, k):
                        lok = False
                        r.check("C09.lookup", False, AGF + "get_attacker_by_id", "%s: get_attacker_by_id(%r) %s" % (
                            where, k, "returns an attacker that is not in the graph" if g.get_attacker_by_id(k) is not None
                            else "misses a present attacker"),
                            "%s:attacker-id-%s" % (on, "stale" if g.get_attacker_by_id(k) is not None else "missing"))
            if lok:
                r.check("C09.lookup", True, AGF + "get_node_by_id")
            failed = failed or not lok

        if kind == "regen" and raised is None:
            model2 = L.build_model_for(start["gen"]["lang"], mrec)
            fresh = AttackGraph(lg, model2)
            same = (g._to_dict() == fresh._to_dict(),
                    (len(g._id_to_node), len(g._full_name_to_node), len(g._id_to_attacker)) ==
                    (len(fresh._id_to_node), len(fresh._full_name_to_node), len(fresh._id_to_attacker)),
                    (g.next_node_id, g.next_attacker_id) == (fresh.next_node_id, fresh.next_attacker_id))
            if all(same):
                r.check("C09.regenerate", True, fn)
            else:
                failed = True
                r.check("C09.regenerate", False, fn, "%s: regenerated graph differs from AttackGraph(lang_graph, model): "
                        "same _to_dict=%s; index sizes %s vs %s; counters %s vs %s" % (
                            where, same[0], (len(g._id_to_node), len(g._full_name_to_node), len(g._id_to_attacker)),
                            (len(fresh._id_to_node), len(fresh._full_name_to_node), len(fresh._id_to_attacker)),
                            (g.next_node_id, g.next_attacker_id), (fresh.next_node_id, fresh.next_attacker_id)),
                        "regen:differs-from-fresh")
        if not wf:
            if kind in ("copy", "sl", "slnm", "regen") and raised is None:
                ref.sync(g)                         # equality of copies / loaded graphs is C14 / C10; regen: checked above
            elif not extra_fail:
                what, msg = _diff(ref.as_view(), L.view(g))
                if what is None:
                    r.check("C09.effect", True, fn)
                else:
                    failed = True
                    r.check("C09.effect", False, fn, "%s: %s" % (where, msg), "%s:%s" % (on, what))

        changed = ref.fingerprint() != fp_before or raised is not None or kind in ("copy", "sl", "slnm", "regen")
        nontrivial = nontrivial or changed
        trace.append(on + ("!" if raised is not None else "+" if changed else "-"))
        if failed:
            break

    if nontrivial:
        r.nontrivial_key = recipe["start"] + "|" + ",".join(trace)
    return r


if __name__ == "__main__":
    common.main(globals())
