"""
Bounded stand-in for C12 (attack-surface queries follow their definition; incremental = recomputed; queries are pure).

Real code under test: maltoolbox.attackgraph.query.{is_node_traversable_by_attacker, get_attack_surface,
update_attack_surface_add_nodes, get_defense_surface, get_enabled_defenses} and
AttackGraphNode.{is_available_defense, is_enabled_defense}, on real hand-built AttackGraph objects with arbitrary
is_viable / is_necessary labels and two attackers (added with AttackGraph.add_attacker, compromising through
Attacker.compromise).

Reference (written from the statement, on plain index sets):
  trav(n, a)   <=>  viable[n] and (type[n] == 'or' or (type[n] == 'and' and every parent p of n with necessary[p]
                    is in reached[a]))
  surface(a)    =   { c | r in reached[a], c in children[r], trav(c, a) }
  defense surface / enabled defenses = defenses without the tag 'suppress' whose status is not / is 1.0
  update(a, S_old, N) as a set = surface(a) recomputed, when S_old was the surface before the nodes N were compromised.
"""
from __future__ import annotations
import itertools, random, sys, os, json
sys.path.insert(0, os.path.dirname(os.path.abspath(__file__)))
import common
from common import CaseResult
import lib_agser as L

PROPERTY = "C12"
SCOPE = {
    "quick": "all graphs on <=2 nodes (10 node variants: or / and x viable x necessary, enabled / disabled defense; all edge sets incl. self "
             "loops) x all sequences of 3 compromises (attacker, node) by 2 attackers (2 nodes: first move by attacker 0); all 24 'wide' variants alone and in pairs; all graphs on 3 or/and nodes x "
             "all labels x all edge sets without self loops x 1 seeded compromise sequence of length 3; 6000 seeded random "
             "graphs of 3-4 nodes over 24 variants (also exist / notExist, suppressed / half-enabled / status-less "
             "defenses, self loops) x random sequences of <=3 compromises (repeats allowed); every query is evaluated after "
             "every prefix of the sequence, the incremental update from every earlier prefix to every later one",
    "thorough": "same exhaustive parts with 12 sequences per 3-node graph; 150000 random graphs of 3-5 nodes, sequences <=4",
}
EXHAUSTIVE = {"quick": False, "thorough": False}
RULE = ("case = (node variants, edge set, attacker names, compromise sequence); after each prefix: traversability of "
        "every node for both attackers, both attack surfaces, defense surface and enabled defenses against the "
        "reference, purity of every query, and update_attack_surface_add_nodes from each earlier prefix; non-trivial "
        "when at some prefix an attack surface is non-empty and some child of a reached step is NOT traversable; "
        "distinct = (variants, edges, sequence)")
ASSUMPTIONS = [
    "reference computed on index sets from the statement's definition",
    "graphs are hand-built with mirrored edges (W3) and registered through AttackGraph.add_node / add_attacker; "
    "attackers have distinct ids (dataclass equality of attackers / nodes is used by the code under test)",
    "the surface handed to update_attack_surface_add_nodes is a copy of the list returned by get_attack_surface at the "
    "earlier prefix; N = the nodes compromised since (the update may write into the list it is handed)",
    "a defense without status counts as not fully enabled",
]
BUDGET_S = {"quick": 100, "thorough": 1500}
CHUNK = 400

Q = "maltoolbox.attackgraph.query:"
FN_TRAV = Q + "is_node_traversable_by_attacker"
FN_SURF = Q + "get_attack_surface"
FN_UPD = Q + "update_attack_surface_add_nodes"
FN_DS = Q + "get_defense_surface"
FN_ED = Q + "get_enabled_defenses"

# small exhaustive variant set: (type, viable, necessary, defense_status, tags)
SMALL = [(t, v, n, None, []) for t in ("or", "and") for v in (True, False) for n in (True, False)] + \
        [("defense", True, True, 1.0, []), ("defense", False, False, 0.0, [])]
ORAND = [(t, v, n, None, []) for t in ("or", "and") for v in (True, False) for n in (True, False)]
WIDE = SMALL + [
    ("defense", True, True, 1.0, ["suppress"]), ("defense", True, False, 0.0, ["suppress", "x"]),
    ("defense", False, True, 0.5, []), ("defense", True, True, None, []), ("defense", True, True, 1.0, ["suppressed"]),
    ("defense", True, True, 1, ["x"]),
    ("exist", True, True, None, []), ("exist", False, False, None, []), ("notExist", True, False, None, ["suppress"]),
    ("notExist", False, True, None, []),
    ("or", True, True, 1.0, ["suppress"]), ("and", True, True, 0.0, []),
]
SETS = {"small": SMALL, "orand": ORAND, "wide": WIDE}


def cases(tier, seed):
    rnd = random.Random(seed)
    # every single wide variant alone and next to an or-node (defense definitions: suppress tag, status)
    for v in range(len(WIDE)):
        for edges in ([], [[0, 0]]):
            yield {"set": "wide", "nodes": [v], "edges": edges, "names": ["a", "b"], "seq": [[0, 0], [1, 0]]}
        for w in range(len(WIDE)):
            yield {"set": "wide", "nodes": [v, w], "edges": [[0, 1], [1, 0]], "names": ["x", "x"], "seq": [[0, 0], [1, 1], [0, 1]]}
    # random
    count, hi, sl = (6000, 4, 3) if tier == "quick" else (150000, 5, 4)
    for _ in range(count):
        n = rnd.randint(3, hi)
        vs = [rnd.randrange(len(WIDE)) for _ in range(n)]
        dens = rnd.choice((0.2, 0.4, 0.7))
        edges = [[i, j] for i in range(n) for j in range(n) if rnd.random() < dens]
        seq = [[rnd.randrange(2), rnd.randrange(n)] for _ in range(rnd.randint(1, sl))]
        yield {"set": "wide", "nodes": vs, "edges": edges, "names": rnd.choice([["a", "b"], ["x", "x"]]), "seq": seq}
    # exhaustive: n <= 2, every sequence of 3 compromises
    for n in (1, 2):
        pairs = [(i, j) for i in range(n) for j in range(n)]
        moves = [(a, i) for a in (0, 1) for i in range(n)]
        for vs in itertools.product(range(len(SMALL)), repeat=n):
            for mask in range(1 << len(pairs)):
                edges = [list(pairs[k]) for k in range(len(pairs)) if mask >> k & 1]
                for seq in itertools.product(moves, repeat=3):
                    if n == 2 and seq[0][0] == 1:
                        continue            # first move by attacker 0 (the two attackers are interchangeable)
                    yield {"set": "small", "nodes": list(vs), "edges": edges, "names": ["x", "x"] if mask & 1 else ["a", "b"],
                           "seq": [list(m) for m in seq]}
    # exhaustive graphs on 3 or/and nodes (no self loops), sampled sequences
    pairs = [(i, j) for i in range(3) for j in range(3) if i != j]
    moves = [(a, i) for a in (0, 1) for i in range(3)]
    k = 1 if tier == "quick" else 12
    for vs in itertools.product(range(len(ORAND)), repeat=3):
        for mask in range(1 << len(pairs)):
            edges = [list(pairs[q]) for q in range(len(pairs)) if mask >> q & 1]
            for _ in range(k):
                seq = [list(rnd.choice(moves)) for _ in range(3)]
                yield {"set": "orand", "nodes": list(vs), "edges": edges, "names": ["a", "b"], "seq": seq}


# ---------------------------------------------------------------------------------------------------
# reference on index sets

def ref_trav(var, parents, reached, i, a):
    t, v, _n, _s, _tags = var[i]
    if not v: return False
    if t == "or": return True
    if t == "and": return all((not var[p][2]) or (p in reached[a]) for p in parents[i])
    return False


def ref_surface(var, parents, children, reached, a):
    return {c for rr in reached[a] for c in children[rr] if ref_trav(var, parents, reached, c, a)}


def ref_defenses(var):
    avail = {i for i, (t, _v, _n, s, tags) in enumerate(var) if t == "defense" and "suppress" not in tags and not (s == 1.0)}
    enabled = {i for i, (t, _v, _n, s, tags) in enumerate(var) if t == "defense" and "suppress" not in tags and s == 1.0}
    return avail, enabled


# ---------------------------------------------------------------------------------------------------

def _idx(nodes, lst):
    """positions (in the harness' node list) of the node objects in lst, by identity; -1 for a foreign object"""
    out = []
    for x in lst:
        out.append(next((i for i, n in enumerate(nodes) if n is x), -1))
    return out


def _snap(g, nodes, attackers, full=False):
    """state of the graph: labels, structure by object identity, attackers, counters (+ the serialised form if full)"""
    lab = [(n.is_viable, n.is_necessary, n.type, n.name, n.id, n.defense_status, n.existence_status, tuple(n.tags),
            tuple(map(id, n.children)), tuple(map(id, n.parents)), tuple(map(id, n.compromised_by))) for n in nodes]
    att = [(tuple(map(id, a.entry_points)), tuple(map(id, a.reached_attack_steps)), a.id, a.name) for a in attackers]
    s = (lab, att, tuple(map(id, g.nodes)), tuple(map(id, g.attackers)), g.next_node_id, g.next_attacker_id)
    if full:
        return (s, json.dumps(g._to_dict(), sort_keys=True, default=str))
    return s


def run_case(recipe):
    from maltoolbox.attackgraph import AttackGraph, AttackGraphNode, Attacker
    from maltoolbox.attackgraph import query as Qm
    var = [tuple(SETS[recipe["set"]][v]) for v in recipe["nodes"]]
    n = len(var)
    edges = sorted({(p, c) for p, c in recipe["edges"]})
    parents = [[p for (p, c) in edges if c == i] for i in range(n)]
    children = [[c for (p, c) in edges if p == i] for i in range(n)]
    nodes = []
    for i, (t, v, nec, s, tags) in enumerate(var):
        nd = AttackGraphNode(type=t, name="n%d" % i)
        nd.is_viable, nd.is_necessary, nd.defense_status, nd.tags = v, nec, s, list(tags)
        nodes.append(nd)
    for (p, c) in edges:
        nodes[p].children.append(nodes[c]); nodes[c].parents.append(nodes[p])
    g = AttackGraph()
    for nd in nodes:
        g.add_node(nd)
    attackers = [Attacker(name=nm, entry_points=[], reached_attack_steps=[]) for nm in recipe["names"]]
    for a in attackers:
        g.add_attacker(a)
    r = CaseResult()
    reached = [set(), set()]
    nontrivial = False

    def pure(fn_name, fn, call):
        before = _snap(g, nodes, attackers)
        try:
            out = call()
        except RecursionError:
            r.check("C12.no-crash", False, fn, "%s: RecursionError" % fn_name, "RecursionError:" + fn_name)
            return None
        except Exception as e:
            r.check("C12.no-crash", False, fn, "%s: %s %s" % (fn_name, type(e).__name__, str(e)[:150]), type(e).__name__ + ":" + fn_name)
            return None
        r.check("C12.pure", _snap(g, nodes, attackers) == before, fn, "%s changed the graph" % fn_name, "impure:" + fn_name)
        return out

    checkpoints = []          # (prefix length, [surface list copies per attacker], [reached copies])
    seq = recipe["seq"]
    for step in range(len(seq) + 1):
        if step:
            a, i = seq[step - 1]
            attackers[a].compromise(nodes[i])
            reached[a].add(i)
        stage_before = _snap(g, nodes, attackers, full=True)
        # reached bookkeeping of the library agrees with the harness' (needed to read the reference; C11 owns it)
        for a in (0, 1):
            if set(_idx(nodes, attackers[a].reached_attack_steps)) != reached[a]:
                return r      # not this property's business
        cur = []
        for a in (0, 1):
            for i in range(n):
                want = ref_trav(var, parents, reached, i, a)
                got = pure("is_node_traversable_by_attacker", FN_TRAV, lambda: Qm.is_node_traversable_by_attacker(nodes[i], attackers[a]))
                if got is None: continue
                r.check("C12.traversable", got is want or (got == want and isinstance(got, bool)), FN_TRAV,
                        "node %d %s reached=%s: got %r, definition says %r" % (i, var[i][:3], sorted(reached[a]), got, want),
                        "trav:%s:%s" % (var[i][0], "viable" if var[i][1] else "nonviable"))
            want = ref_surface(var, parents, children, reached, a)
            got = pure("get_attack_surface", FN_SURF, lambda: Qm.get_attack_surface(attackers[a]))
            if got is None:
                cur.append(None); continue
            gi = _idx(nodes, got)
            r.check("C12.surface", set(gi) == want, FN_SURF, "attacker %d reached=%s: surface %s, definition %s" % (a, sorted(reached[a]), sorted(gi), sorted(want)),
                    "surface:" + ("extra" if set(gi) - want else "missing"))
            r.check("C12.surface.no-duplicates", len(gi) == len(set(gi)), FN_SURF, "surface lists a node twice: %s" % gi, "surface:dup")
            cur.append(list(got))
            if want and any(c not in want for rr in reached[a] for c in children[rr]):
                nontrivial = True
            # incremental update from every earlier checkpoint
            for (k, surf_k, reached_k) in checkpoints:
                if surf_k[a] is None: continue
                newly = [nodes[i] for (aa, i) in seq[k:step] if aa == a]
                handed = list(surf_k[a])
                upd = pure("update_attack_surface_add_nodes", FN_UPD, lambda: Qm.update_attack_surface_add_nodes(attackers[a], handed, newly))
                if upd is None: continue
                ui = _idx(nodes, upd)
                r.check("C12.incremental", set(ui) == want, FN_UPD,
                        "attacker %d: surface at prefix %d %s + newly compromised %s -> %s, recomputed %s" % (
                            a, k, sorted(_idx(nodes, surf_k[a])), _idx(nodes, newly), sorted(ui), sorted(want)),
                        "inc:" + ("extra" if set(ui) - want else "missing"))
                r.check("C12.incremental", len(ui) == len(set(ui)), FN_UPD, "updated surface lists a node twice: %s" % ui, "inc:dup")
        wa, we = ref_defenses(var)
        got = pure("get_defense_surface", FN_DS, lambda: Qm.get_defense_surface(g))
        if got is not None:
            gi = _idx(nodes, got)
            r.check("C12.defenses", set(gi) == wa and len(gi) == len(set(gi)), FN_DS, "defense surface %s, definition %s" % (sorted(gi), sorted(wa)), "defense-surface")
        got = pure("get_enabled_defenses", FN_ED, lambda: Qm.get_enabled_defenses(g))
        if got is not None:
            gi = _idx(nodes, got)
            r.check("C12.defenses", set(gi) == we and len(gi) == len(set(gi)), FN_ED, "enabled defenses %s, definition %s" % (sorted(gi), sorted(we)), "enabled-defenses")
        for i in range(n):
            ga = pure("is_available_defense", "maltoolbox.attackgraph.node:AttackGraphNode.is_available_defense", nodes[i].is_available_defense)
            ge = pure("is_enabled_defense", "maltoolbox.attackgraph.node:AttackGraphNode.is_enabled_defense", nodes[i].is_enabled_defense)
            r.check("C12.defenses", bool(ga) == (i in wa) and bool(ge) == (i in we), "maltoolbox.attackgraph.node:AttackGraphNode.is_available_defense",
                    "node %d %s: available=%r enabled=%r" % (i, var[i], ga, ge), "defense-pointwise")
        r.check("C12.pure", _snap(g, nodes, attackers, full=True) == stage_before, Q + "*",
                "serialised form / labels of the graph changed during the queries of prefix %d" % step, "impure:serialised")
        checkpoints.append((step, cur, [set(x) for x in reached]))
    if nontrivial:
        r.nontrivial_key = "%s|%s|%s|%s" % (recipe["set"], recipe["nodes"], edges, seq)
    return r


if __name__ == "__main__":
    common.main(globals())
