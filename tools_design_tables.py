"""python3 tools_design_tables.py — regenerate the machine-made tables of DESIGN.md (between the AUTO markers) from
evidence/*.json, seeded/*/meta.json and known_findings.txt."""
import glob, json, os, re

ROOT = os.path.dirname(os.path.abspath(__file__))


def status_table():
    rows = ['| id | level (evidence) | functions under contract (deductive) | obligations discharged | assumed contracts used | floor: cases / distinct non-trivial | floor scope (quick) |',
            '|---|---|---|---|---|---|---|']
    for f in sorted(glob.glob(os.path.join(ROOT, 'evidence', 'C*.json'))):
        d = json.load(open(f))
        c = d['coverage']
        fns = [x['function'].split(':')[-1] for x in c.get('functions_under_contract', []) if x.get('mode') == 'deductive']
        bounded = [x['function'].split(':')[-1] for x in c.get('functions_under_contract', []) if x.get('mode') != 'deductive']
        assumed = [t.split('assumed contract: ')[1].split(' — ')[0].split(':')[-1] for t in c.get('trusted_base', []) if t.startswith('assumed contract: ')]
        rows.append('| %s | %s | %s%s | %s/%s | %s | %s / %s | %s |' % (
            d['property_id'], d['level'], ', '.join(fns) or '–', (' (unsupported: ' + ', '.join(bounded) + ')') if bounded else '',
            c.get('discharged', 0), c.get('obligations', 0), ', '.join(assumed) or '–',
            c.get('evaluations', '–'), c.get('distinct_nontrivial', '–'), (c.get('bounded', {}).get('scope', '–') or '')[:160].replace('|', '/')))
    return '\n'.join(rows)


def seeded_table():
    rows = ['| change | property | what it breaks | needs to manifest | caught by (quick check) |', '|---|---|---|---|---|']
    for f in sorted(glob.glob(os.path.join(ROOT, 'seeded', '*', 'meta.json'))):
        m = json.load(open(f))
        n = os.path.basename(os.path.dirname(f))
        if n.startswith('harmless'):
            rows.append('| %s | – | %s | – | expected and observed: no alarm (%s) |' % (n, m.get('what_it_changes', '')[:150].replace('|', '/').replace('\n', ' '), ', '.join(
                '%s exit %s%s' % (k, r.get('exit'), (' (%d undecided)' % len(r['undecided'])) if isinstance(r.get('undecided'), list) and r.get('undecided') else '') for k, r in sorted(m.get('verif', {}).items()))))
            continue
        v = m.get('verif', {})
        caught = []
        for p, r in v.items():
            if r.get('exit') == 1:
                who = '+'.join(r.get('detected_by', [])) or 'check'
                first = ''
                for l in r.get('first', []):
                    mm = re.search(r'obligation (\S+):', l) or re.search(r'clause (\S+) false', l)
                    if mm:
                        first = mm.group(1).split('/')[-1]
                        break
                caught.append('%s: %s (%s)' % (p, who, first))
            else:
                caught.append('%s: MISSED' % p)
        rows.append('| %s | %s | %s | %s | %s |' % (n, m.get('property'), (m.get('what_it_breaks', '') or '')[:150].replace('|', '/').replace('\n', ' '),
                                                  (m.get('needs_to_manifest', '') or '')[:120].replace('|', '/').replace('\n', ' '), '; '.join(caught)))
    return '\n'.join(rows)


def fixes_table():
    rows = ['| property | repo commit | what failed |', '|---|---|---|']
    for l in open(os.path.join(ROOT, 'known_findings.txt')):
        if l.startswith('fixed:'):
            m = re.match(r'fixed: property=(\S+) (\S+) (.*)', l.strip())
            rows.append('| %s | %s | %s |' % (m.group(1), m.group(2), m.group(3)[:220].replace('|', '/')))
    return '\n'.join(rows)


def findings_table():
    rows = ['| property | key | what fails |', '|---|---|---|']
    for l in open(os.path.join(ROOT, 'known_findings.txt')):
        if l.startswith('finding:'):
            kv = dict(re.findall(r'(\w+)=(\S+)', l.split('::')[0]))
            rows.append('| %s | %s %s | %s |' % (kv.get('property'), kv.get('clause', ''), kv.get('signature', ''), l.split('::', 1)[1].strip()[:400].replace('|', '/')))
    return '\n'.join(rows)


if __name__ == '__main__':
    p = os.path.join(ROOT, 'DESIGN.md')
    s = open(p).read()
    for tag, fn in (('STATUS', status_table), ('SEEDED', seeded_table), ('FIXES', fixes_table), ('FINDINGS', findings_table)):
        a, b = '<!-- AUTO:%s:BEGIN -->' % tag, '<!-- AUTO:%s:END -->' % tag
        if a in s and b in s:
            s = s[:s.index(a) + len(a)] + '\n' + fn() + '\n' + s[s.index(b):]
    open(p, 'w').write(s)
    print('DESIGN.md tables regenerated')
