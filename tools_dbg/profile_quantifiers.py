import sys, z3, time, re
from pyvc.dev import build_registry
from pyvc.verify import verify_function
from pyvc.theory import string_axioms
reg = build_registry()
c = reg.contracts[sys.argv[1]]
rep = verify_function(reg, c)
ob = [o for o in rep.obligations if sys.argv[2] in o.name][0]
def requal(f, tag, cnt=[0]):
    """rebuild quantifiers with qids"""
    if z3.is_quantifier(f):
        n = f.num_vars()
        vs = [z3.Const(f.var_name(i) + '_q', f.var_sort(i)) for i in range(n)]
        body = z3.substitute_vars(f.body(), *reversed(vs))
        body = requal(body, tag)
        pats = []
        for i in range(f.num_patterns()):
            p = f.pattern(i)
            terms = [z3.substitute_vars(p.arg(j), *reversed(vs)) for j in range(p.num_args())]
            pats.append(z3.MultiPattern(*terms) if len(terms) > 1 else terms[0])
        cnt[0] += 1
        qid = '%s_%d' % (tag, cnt[0])
        return (z3.ForAll if f.is_forall() else z3.Exists)(vs, body, qid=qid, patterns=pats)
    if z3.is_app(f) and f.num_args() > 0 and f.decl().kind() in (z3.Z3_OP_AND, z3.Z3_OP_OR, z3.Z3_OP_IMPLIES, z3.Z3_OP_NOT, z3.Z3_OP_ITE, z3.Z3_OP_EQ, z3.Z3_OP_IFF):
        return f.decl()(*[requal(a, tag) for a in f.children()])
    return f
z3.set_param('smt.qi.profile', True)
z3.set_param('smt.qi.profile_freq', 100000)
s = z3.Solver(); s.set('smt.mbqi', False); s.set('auto_config', False); s.set('timeout', int(sys.argv[3]) if len(sys.argv) > 3 else 20000)
desc = {}
for a in string_axioms(): s.add(a)
for i, hh in enumerate(ob.hyps):
    s.add(requal(hh, 'H%d' % i)); desc['H%d' % i] = ' '.join(str(hh).split())[:160]
s.add(z3.Not(requal(ob.goal, 'G')))
t = time.time(); print(s.check(), round(time.time() - t, 1))
st = s.statistics()
for k in st.keys():
    if 'inst' in k or 'quant' in k: print(k, st.get_key_value(k))
open('/tmp/prof_desc.txt', 'w').write('\n'.join('%s %s' % kv for kv in desc.items()))
