import sys, z3, time
from pyvc.dev import build_registry
from pyvc.verify import verify_function
from pyvc.solve import to_smt2, _z3_check
from pyvc.state import Obligation
from pyvc.debug import conjuncts
reg = build_registry()
c = reg.contracts[sys.argv[1]]
rep = verify_function(reg, c)
for ob in rep.obligations:
    if sys.argv[2] in ob.name:
        t = time.time(); v, note = _z3_check(to_smt2(ob), 60000, mbqi=False); print(ob.name, v, round(time.time() - t, 1))
        if len(sys.argv) > 3:
            for i, g in enumerate(conjuncts(ob.goal)):
                t = time.time(); v, note = _z3_check(to_smt2(Obligation(ob.name, ob.hyps, g, ob.kind, ob.fn)), 60000, mbqi=False)
                if time.time() - t > 0.5: print('  ', i, v, round(time.time() - t, 1), ' '.join(str(g).split())[:300])
