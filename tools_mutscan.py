"""python3-vt tools_mutscan.py [contract-key-substring ...] [--jobs N] [--max M]

Vacuity / strength self-test of the deductive side (developer tool, not a registered check).  For every function under
(non-trusted) contract it derives one-point mutants of the function's AST — negated conditions, swapped comparison /
boolean operators, deleted simple statements, off-by-one constants, break<->continue, swapped call arguments — writes each
mutant into a scratch copy of the package OUTSIDE /repo and /verif, and runs the verifier on that function only.
A mutant SURVIVES when every obligation still discharges: either it is semantically equivalent (listed for review) or the
contract is too weak / the proof is vacuous there.  Results: mutscan/<function>.json (summary) — survivors are listed with the
mutated source line so that they can be judged.
"""
from __future__ import annotations
import ast, copy, json, os, shutil, subprocess, sys, tempfile, time
from concurrent.futures import ThreadPoolExecutor

ROOT = os.path.dirname(os.path.abspath(__file__))
sys.path.insert(0, ROOT)
REPO = os.environ.get('VERIF_REPO', '/repo')


def is_logging(stmt):
    return (isinstance(stmt, ast.Expr) and isinstance(stmt.value, ast.Call) and isinstance(stmt.value.func, ast.Attribute)
            and isinstance(stmt.value.func.value, ast.Name) and stmt.value.func.value.id == 'logger')


def find_fn(tree, qualname):
    parts = qualname.split('.')
    body = tree.body
    node = None
    for p in parts:
        node = next(n for n in body if isinstance(n, (ast.FunctionDef, ast.ClassDef)) and n.name == p)
        body = node.body
    return node


CMP_SWAP = {ast.Eq: ast.NotEq, ast.NotEq: ast.Eq, ast.Lt: ast.LtE, ast.LtE: ast.Lt, ast.Gt: ast.GtE, ast.GtE: ast.Gt,
            ast.In: ast.NotIn, ast.NotIn: ast.In, ast.Is: ast.IsNot, ast.IsNot: ast.Is}


def mutants(fn: ast.FunctionDef):
    """yield (description, mutated copy of fn)"""
    nodes = list(ast.walk(fn))
    index = {id(n): i for i, n in enumerate(nodes)}

    def clone():
        c = copy.deepcopy(fn)
        return c, list(ast.walk(c))

    for i, n in enumerate(nodes):
        line = getattr(n, 'lineno', 0)
        if isinstance(n, (ast.If, ast.While)) and not (isinstance(n.test, ast.Call) and is_logging(ast.Expr(n.test))):
            c, cn = clone()
            cn[i].test = ast.UnaryOp(ast.Not(), cn[i].test)
            yield ('L%d negate condition `%s`' % (line, ast.unparse(n.test)[:60]), c)
        if isinstance(n, ast.IfExp):
            c, cn = clone()
            cn[i].test = ast.UnaryOp(ast.Not(), cn[i].test)
            yield ('L%d negate conditional-expression test `%s`' % (line, ast.unparse(n.test)[:60]), c)
        if isinstance(n, ast.Compare) and len(n.ops) == 1 and type(n.ops[0]) in CMP_SWAP:
            c, cn = clone()
            cn[i].ops = [CMP_SWAP[type(n.ops[0])]()]
            yield ('L%d `%s` -> `%s`' % (line, ast.unparse(n)[:60], ast.unparse(cn[i])[:60]), c)
        if isinstance(n, ast.BoolOp):
            c, cn = clone()
            cn[i].op = ast.Or() if isinstance(n.op, ast.And) else ast.And()
            yield ('L%d and<->or in `%s`' % (line, ast.unparse(n)[:60]), c)
        if isinstance(n, ast.Constant) and isinstance(n.value, bool):
            c, cn = clone()
            cn[i].value = not n.value
            yield ('L%d constant %r -> %r' % (line, n.value, not n.value), c)
        elif isinstance(n, ast.Constant) and isinstance(n.value, int) and not isinstance(n.value, bool):
            c, cn = clone()
            cn[i].value = n.value + 1
            yield ('L%d constant %r -> %r' % (line, n.value, n.value + 1), c)
        if isinstance(n, ast.Break) or isinstance(n, ast.Continue):
            c, cn = clone()
            new = ast.Continue() if isinstance(n, ast.Break) else ast.Break()
            _replace_stmt(c, cn[i], new)
            yield ('L%d %s -> %s' % (line, type(n).__name__, type(new).__name__), c)
        if isinstance(n, (ast.Assign, ast.AugAssign, ast.Delete)) or (isinstance(n, ast.Expr) and isinstance(n.value, ast.Call) and not is_logging(n)):
            c, cn = clone()
            _replace_stmt(c, cn[i], ast.Pass())
            yield ('L%d delete statement `%s`' % (line, ast.unparse(n)[:70]), c)
        if isinstance(n, ast.Call) and len(n.args) >= 2 and not n.keywords and not (isinstance(n.func, ast.Attribute) and isinstance(n.func.value, ast.Name) and n.func.value.id == 'logger'):
            c, cn = clone()
            cn[i].args[0], cn[i].args[1] = cn[i].args[1], cn[i].args[0]
            yield ('L%d swap first two arguments of `%s`' % (line, ast.unparse(n)[:60]), c)
        if isinstance(n, ast.BinOp) and isinstance(n.op, (ast.Add, ast.Sub)) and not isinstance(n.left, ast.Constant):
            c, cn = clone()
            cn[i].op = ast.Sub() if isinstance(n.op, ast.Add) else ast.Add()
            yield ('L%d +<->- in `%s`' % (line, ast.unparse(n)[:60]), c)
        if isinstance(n, ast.Return) and n.value is not None and not (isinstance(n.value, ast.Constant) and n.value.value is None):
            if isinstance(n.value, ast.Constant) and isinstance(n.value.value, bool):
                continue
            c, cn = clone()
            cn[i].value = ast.Constant(None)
            yield ('L%d return None instead of `%s`' % (line, ast.unparse(n.value)[:50]), c)


def _replace_stmt(root, old, new):
    for parent in ast.walk(root):
        for field in ('body', 'orelse', 'finalbody'):
            lst = getattr(parent, field, None)
            if isinstance(lst, list):
                for k, s in enumerate(lst):
                    if s is old:
                        lst[k] = ast.copy_location(new, old)
                        return
    raise RuntimeError('statement not found')


def run_one(job):
    key, desc, mod_rel, new_src, scratch_root, idx, jobs_inner = job
    d = os.path.join(scratch_root, 'm%05d' % idx)
    shutil.copytree(os.path.join(REPO, 'maltoolbox'), os.path.join(d, 'maltoolbox'))
    with open(os.path.join(d, mod_rel), 'w') as f:
        f.write(new_src)
    env = dict(os.environ, VERIF_REPO=d, PYVC_JOBS=str(jobs_inner), PYVC_CALL_CANARY='1')
    t0 = time.time()
    try:
        r = subprocess.run(['python3-vt', '-m', 'pyvc.dev', key], env=env, capture_output=True, text=True, cwd=ROOT, timeout=900)
        out = r.stdout
    except subprocess.TimeoutExpired:
        out = 'TIMEOUT'
    shutil.rmtree(d, ignore_errors=True)
    verdict, detail = 'error', out[-300:]
    for l in out.split('\n'):
        if l.startswith('UNSUPPORTED'):
            verdict, detail = 'undecided', l[:200]
        elif l.startswith('ERROR'):
            verdict, detail = 'error', l[:300]
        elif l.startswith(key + ':') and 'obligations' in l:
            n, m = int(l.split(': ')[1].split(' ')[0]), int(l.split(', ')[1].split(' ')[0])
            verdict = 'survived' if n == m else 'killed'
            detail = l[len(key) + 2:][:120]
    if any(l.strip().startswith('CALL-VACUOUS') for l in out.split('\n')) and verdict == 'survived':
        verdict, detail = 'killed', 'vacuity guard: ' + [l.strip() for l in out.split('\n') if l.strip().startswith('CALL-VACUOUS')][0][:160]
    if verdict == 'killed':
        first = [l.strip() for l in out.split('\n') if l.strip().startswith(('FAILED', 'UNKNOWN'))][:2]
        detail += ' | ' + ' ; '.join(x[:110] for x in first)
    return key, desc, verdict, detail, round(time.time() - t0, 1)


def main():
    args = [a for a in sys.argv[1:] if not a.startswith('--')]
    jobs = int(next((a.split('=')[1] for a in sys.argv if a.startswith('--jobs=')), 5))
    maxm = int(next((a.split('=')[1] for a in sys.argv if a.startswith('--max=')), 10 ** 6))
    from pyvc.dev import build_registry
    reg = build_registry()
    scratch_root = tempfile.mkdtemp(prefix='mutscan_')
    os.makedirs(os.path.join(ROOT, 'mutscan'), exist_ok=True)
    work = []
    for key, c in reg.contracts.items():
        if c.trusted or (args and not any(a in key for a in args)):
            continue
        mod, qual = key.split(':')
        from pyvc import extract
        rel = os.path.relpath(extract.module_path(mod), REPO)
        src = open(os.path.join(REPO, rel)).read()
        tree = ast.parse(src)
        try:
            fn = find_fn(tree, qual)
        except StopIteration:
            continue
        seg = ast.get_source_segment(src, fn)
        indent = ' ' * fn.col_offset
        k = 0
        for desc, m in mutants(fn):
            if k >= maxm:
                break
            try:
                text = ast.unparse(ast.fix_missing_locations(m))
            except Exception:
                continue
            text = '\n'.join((indent + l) if l else l for l in text.split('\n')).lstrip()
            new_src = src.replace(seg, text, 1)
            try:
                ast.parse(new_src)
            except SyntaxError:
                continue
            work.append((key, desc, rel, new_src, scratch_root, len(work), 3))
            k += 1
    print('%d mutants of %d functions' % (len(work), len({w[0] for w in work})), flush=True)
    res = {}
    t0 = time.time()
    with ThreadPoolExecutor(jobs) as ex:
        for key, desc, verdict, detail, secs in ex.map(run_one, work):
            res.setdefault(key, []).append({'mutant': desc, 'verdict': verdict, 'detail': detail, 'seconds': secs})
            if verdict != 'killed':
                print('%-9s %s :: %s :: %s' % (verdict.upper(), key.split(':')[1], desc, detail[:140]), flush=True)
    shutil.rmtree(scratch_root, ignore_errors=True)
    tot = {}
    for key, ms in res.items():
        summary = {v: sum(1 for m in ms if m['verdict'] == v) for v in ('killed', 'survived', 'undecided', 'error')}
        for v, n in summary.items():
            tot[v] = tot.get(v, 0) + n
        json.dump({'function': key, 'summary': summary, 'mutants': ms}, open(os.path.join(ROOT, 'mutscan', key.replace(':', '__') + '.json'), 'w'), indent=1)
    print('TOTAL', tot, 'in %.0fs' % (time.time() - t0))


if __name__ == '__main__':
    main()
