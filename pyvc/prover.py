"""pyvc.prover — run the deductive side for one property; assemble evidence."""
from __future__ import annotations
import importlib, os, pkgutil, sys, time, json
from .contract import Registry
from .verify import verify_function
from .solve import solve_all_split as solve_all

ROOT = os.path.dirname(os.path.dirname(os.path.abspath(__file__)))

TRUSTED_BASE = [
    'T1 z3 5.1 (E-matching, then MBQI) and cvc5 1.0.3 as SMT back ends',
    'T2 pyvc encoding of the Python subset (typed heap arrays, list len/at/bag theory with the coupling axiom, dict theory, '
    'identity equality on references EQ-ID, uninterpreted strings with concat/py_str) — exercised by the mutation self-test '
    'and the native floor on the same functions',
    'T3 extraction drops logging statements, docstrings, exception message text (assumption LOG)',
    'T4 floats as reals (no NaN/inf), str(int) injective (STRINT)',
    'T6 HEAP-CLOSED: references stored in allocated objects / containers are allocated; allocation is fresh',
    'TYPES: fields hold values of their declared (sidecar schema) types; element types of typed lists',
    'PJS: assumed object model of python_jsonschema_objects for assets / associations (heap objects; the two array properties of an '
    'association in schema order; == and `in` are identity (PJS-EQ — the C05 floor shows this is false for nameless assets: known finding); '
    'attributes created on first assignment via ghost presence flags; as_dict() a shallow copy; getattr(asset, <defense>) a lookup in a ghost dict)',
    'ORIG: the ghost origin map is written only at allocation and by DEEPCOPY, at fresh addresses (assumed wherever it is havoced)',
    'SETCARD: |{f(x) for x in L}| <= len(L), with equality iff L has no repeated element and f is injective on its members '
    '(assumed by the encoding of set comprehensions; proved in lemmas/SetCard.lean with Lean 4 + Mathlib, re-checked in the thorough tier of C05/C06)',
]


# properties whose every clause is carried by contracts on the functions it is anchored in (level `proof` when every
# obligation discharges; anything less is reported as `other` with the proved / bounded split in the evidence)
PROOF_PROPS = {'C08', 'C12', 'C13'}


import re as _re


def stable_name(n):
    return _re.sub(r'(@exit\d+|#\d+|~\d+)', '', n)


def load_baseline():
    p = os.path.join(ROOT, 'baseline_obligations.json')
    if os.path.exists(p):
        return json.load(open(p))
    return {}


def build_registry() -> Registry:
    reg = Registry()
    import contracts
    from contracts import graph_spec
    graph_spec.install_schema(reg)
    for m in sorted(pkgutil.iter_modules(contracts.__path__), key=lambda m: m.name):
        if m.name.startswith('c_'):
            importlib.import_module('contracts.' + m.name).install(reg)
    return reg


def run_property(prop: str, tier: str):
    t0 = time.time()
    reg = build_registry()
    timeout = 10 if tier == 'quick' else 60
    if tier != 'quick':
        os.environ['PYVC_CALL_CANARY'] = '1'      # per-call vacuity guard for assumed contracts (see calls.call_by_contract)
    functions, obligations, unsupported, errors = [], [], [], []
    src_of = {}
    # the property's own functions, plus (transitively) every function whose contract they are verified against
    all_called = set()
    todo = [k for k, c in reg.contracts.items() if not c.trusted and prop in c.props]
    seen = set()
    while todo:
        key = todo.pop(0)
        if key in seen:
            continue
        seen.add(key)
        c = reg.contracts[key]
        if c.trusted:
            continue
        rep = verify_function(reg, c)
        all_called |= rep.called
        for k2 in sorted(rep.called):
            if k2 not in seen and k2 in reg.contracts and not reg.contracts[k2].trusted:
                todo.append(k2)
        if rep.error:
            changed = bool(rep.source) and load_baseline().get(key, {}).get('sha') not in (None, rep.source.get('sha256_16'))
            if rep.error.startswith('missing function'):
                unsupported.append({'function': key, 'reason': rep.error})
            elif changed:
                # the VC generator fails on source that differs from the source the contracts were written against: the sidecar
                # contract no longer fits its shape — undecided (the floor decides alone), never a checker error
                unsupported.append({'function': key, 'reason': 'contract does not fit the changed source: ' + rep.error.split('\n')[0][:200]})
            else:
                errors.append('%s: %s' % (key, rep.error))
            continue
        if rep.unsupported:
            unsupported.append({'function': key, 'reason': rep.unsupported})
            functions.append(dict(rep.source, mode='bounded (unsupported: %s)' % rep.unsupported))
            continue
        functions.append(dict(rep.source, mode='deductive', obligations=sum(o.kind != 'canary' for o in rep.obligations),
                              paths=rep.paths))
        for o in rep.obligations:
            src_of[id(o)] = rep.source
        obligations.extend(rep.obligations)
    from .state import Obligation
    for (lname, lprops, lfn) in reg.lemmas:
        if prop not in lprops:
            continue
        n0 = len(obligations)
        for (sub, hyps, goal) in lfn(reg):
            obligations.append(Obligation('lemma:%s/%s' % (lname, sub), hyps, goal, 'lemma', 'lemma:' + lname))
        functions.append({'function': 'lemma:' + lname, 'mode': 'deductive', 'obligations': len(obligations) - n0,
                          'file': 'contracts (pure-logic lemma over the contracts)'})
    res = solve_all(obligations, timeout_s=timeout, cross_check=(tier == 'thorough')) if obligations else {}
    # second look before anything is reported on CHANGED source: an obligation of a function whose source differs from the
    # baseline and that did not discharge is solved again — after the pool has drained (less load), few at a time, with three
    # times the budget.  A slow proof on harmlessly edited source must not become an alarm; a broken one fails again.
    base0 = load_baseline()
    again, per_fn = [], {}
    for o in obligations:
        if o.kind == 'canary' or res.get(o.name, ('unsat',))[0] in ('unsat', 'sat', 'error'):
            continue
        src = src_of.get(id(o)) or {}
        b = base0.get(o.fn, {})
        if b and b.get('sha') != src.get('sha256_16') and per_fn.get(o.fn, 0) < 12:
            per_fn[o.fn] = per_fn.get(o.fn, 0) + 1
            again.append(o)
    if again:
        from . import solve as _s2
        res2 = _s2.solve_all(again, timeout_s=3 * timeout, jobs=8, use_cvc5=False)      # E-matching attempts only (four seeds / cut-offs)
        for o in again:
            if res2.get(o.name, ('unknown',))[0] == 'unsat':
                v2 = res2[o.name]
                res[o.name] = (v2[0], v2[1] + ' (second look)', v2[2] + res[o.name][2], v2[3])
    failed, unknown, by_backend, solver_seconds = [], [], {}, 0.0
    canaries = {}
    call_canaries = {}
    baseline = load_baseline()
    from . import solve as _solve
    proved_queries = set(baseline.get('__query_hashes__', {}).get(prop, []))
    proved_hashes = []
    proved_now = {}
    n_obl = n_dis = 0
    samples = []
    assumed = sorted({k for k in seen if reg.contracts[k].trusted} | {k for k, c in reg.contracts.items() if c.trusted and any(k in getattr(r, 'called', ()) for r in [])})
    assumed = sorted({k for k, c in reg.contracts.items() if c.trusted and k in all_called})
    unverified = []
    for k in sorted(seen):
        c = reg.contracts[k]
        for o_, l in sorted(c.loops.items()):
            if getattr(l, 'term_unverified', False):
                unverified.append('termination of while loop %d of %s is not proved (%s)' % (o_, k, l.note or 'no variant'))
        if c.may_raise:
            unverified.append('absence of %s in %s is not proved (left to the bounded floor)' % ('/'.join(c.may_raise), k))
    for o in obligations:
        v, backend, secs, model = res[o.name]
        solver_seconds += secs
        if o.kind == 'canary' and '/callcanary.' in o.name:
            call_canaries[o.name] = (v == 'unsat')
            continue
        if o.kind == 'canary':
            canaries.setdefault(o.fn, []).append(v == 'unsat')
            continue
        n_obl += 1
        if v == 'unsat':
            proved_now.setdefault(o.fn, set()).add(stable_name(o.name))
            proved_hashes.append(_solve.QHASH.get(o.name))
            n_dis += 1
            by_backend[backend] = by_backend.get(backend, 0) + 1
            if len(samples) < 4:
                samples.append({'obligation': o.name, 'kind': o.kind, 'verdict': 'proved', 'backend': backend, 'seconds': secs})
        elif v == 'failed' and _solve.QHASH.get(o.name) in proved_queries:
            # this exact query text was proved when the baseline was recorded (same source, same contracts): the E-matching
            # run is unstable today.  Never an alarm and never counted as proved: undecided.
            unknown.append({'name': o.name, 'function': o.fn, 'kind': o.kind, 'note': 'unstable: identical query was proved when the baseline was recorded'})
        elif v in ('sat', 'failed'):
            if o.kind == 'type':
                unsupported.append({'function': o.fn, 'reason': 'typing obligation %s not discharged (%s)' % (o.name, v)})
            else:
                failed.append({'name': o.name, 'function': o.fn, 'kind': o.kind, 'verdict': v, 'backend': backend,
                               'model': model, 'note': o.note, 'source': src_of.get(id(o))})
        elif v == 'error':
            errors.append('solver error on %s: %s' % (o.name, model))
        else:
            # timeout on every back end.  If this obligation was proved on the baseline tree AND the function's source has
            # changed since, the proof regressed: reported as a failed obligation (reason: timeout).  On unchanged source a
            # timeout is never an alarm (undecided).
            b = baseline.get(o.fn, {})
            src = src_of.get(id(o)) or {}
            if b and b.get('sha') != src.get('sha256_16') and stable_name(o.name) in b.get('proved', []) and o.kind != 'type':
                failed.append({'name': o.name, 'function': o.fn, 'kind': o.kind, 'verdict': 'regressed (proved on the baseline source, times out on the changed source)',
                               'backend': backend, 'model': model, 'note': o.note, 'source': src})
            else:
                unknown.append({'name': o.name, 'function': o.fn, 'kind': o.kind})
    cross = {'cvc5_confirms': 0, 'cvc5_unknown': 0, 'cvc5_disagrees': []}
    if tier == 'thorough':
        for o in obligations:
            sec = _solve.CROSS.get(o.name, '')
            if sec == 'unsat':
                cross['cvc5_confirms'] += 1
            elif sec == 'sat':
                cross['cvc5_disagrees'].append(o.name)
                errors.append('solver disagreement: z3 proved %s, cvc5 reports a counter-model' % o.name)
            elif sec:
                cross['cvc5_unknown'] += 1
    # container-theory law SETCARD (set comprehensions): re-checked by Lean in the thorough tier of the properties that use it
    if tier == 'thorough' and prop in ('C05', 'C06'):
        import subprocess
        try:
            r = subprocess.run(['lean', os.path.join(ROOT, 'lemmas', 'SetCard.lean')], capture_output=True, text=True, timeout=600)
            if r.returncode != 0 or 'error' in (r.stdout + r.stderr):
                errors.append('lean rejects lemmas/SetCard.lean: ' + (r.stdout + r.stderr)[-400:])
            else:
                unverified.append('SETCARD law of set comprehensions: checked by lean (lemmas/SetCard.lean) on this run')
        except Exception as e:
            errors.append('lean could not be run on lemmas/SetCard.lean: %r' % e)
    for nm_, refuted in sorted(call_canaries.items()):
        if refuted and '/callcanary.after@' in nm_ and not call_canaries.get(nm_.replace('/callcanary.after@', '/callcanary.before@'), False):
            errors.append('vacuous: the assumed contract used at %s is contradictory there (the state after the call is refutable, the state '
                          'before it is not): everything behind the call would be discharged vacuously' % nm_.replace('/callcanary.after@', ' call '))
    for fn_, vs in canaries.items():
        # a dead path is fine (e.g. an arm excluded by the precondition); a function ALL of whose normal exits are
        # unreachable has a contradictory precondition or invariant: the proof would be vacuous
        if vs and all(vs) and not any(f['function'] == fn_ for f in failed):
            errors.append('vacuous: every normal exit of %s is unreachable under its contract (contradictory requires / invariant)' % fn_)
    return {'functions': functions, 'n_obligations': n_obl, 'n_discharged': n_dis, 'failed': failed, 'unknown': unknown,
            'unsupported': unsupported, 'errors': errors, 'by_backend': by_backend, 'solver_seconds': round(solver_seconds, 2),
            'samples': samples, 'assumed_contracts': assumed, 'assumed_notes': {k: ' '.join((reg.contracts[k].note or '').split())[:400] for k in assumed}, 'unverified': unverified, 'proved_hashes': sorted(set(x for x in proved_hashes if x)), 'cross_check': cross, 'proved_now': {k: sorted(v) for k, v in proved_now.items()}, 'wall_s': round(time.time() - t0, 2)}


def evidence(prop, tier, seed, pr, fl, violations, known_lines, undecided, checker_errors, wall):
    cov = {}
    level = 'other'
    if (pr and prop in PROOF_PROPS and pr['n_obligations'] > 0 and pr['n_discharged'] == pr['n_obligations']
            and not pr['unsupported'] and not pr['errors']):
        level = 'proof'
    elif (not pr or not pr['functions']) and fl:
        level = 'exploration'
    assumptions = []
    if pr:
        cov.update({
            'obligations': pr['n_obligations'], 'discharged': pr['n_discharged'],
            'checker_cmd': './check %s --tier %s' % (prop, tier),
            'trusted_base': TRUSTED_BASE + ['assumed contract: ' + k + ((' — ' + pr['assumed_notes'][k]) if pr.get('assumed_notes', {}).get(k) else '') for k in pr['assumed_contracts']] + ['unverified: ' + u for u in pr.get('unverified', [])],
            'functions_under_contract': pr['functions'], 'by_backend': pr['by_backend'],
            'solver_seconds': pr['solver_seconds'],
            'undischarged': [f['name'] for f in pr['failed']] + [u['name'] for u in pr['unknown']],
            'cvc5_cross_check_of_proved_obligations': pr.get('cross_check'),
            'unsupported_functions': pr['unsupported'],
        })
        assumptions += TRUSTED_BASE
    samples = list(pr['samples']) if pr else []
    if fl:
        cov.update({
            'evaluations': fl['evaluations'], 'distinct_nontrivial': fl['distinct_nontrivial'], 'rule': fl['rule'],
            'exhaustive': fl['exhaustive'],
            'bounded': {'label': 'bounded stand-in (never counted as proved)', 'scope': fl['scope'], 'clauses': fl['clauses'],
                        'truncated_by_budget': fl.get('truncated_by_budget', False), 'wall_s': fl['wall_s']},
        })
        samples += [{'floor_case': s} for s in fl['samples'][:3]]
        assumptions += ['floor: ' + a for a in fl.get('assumptions', [])]
    cov['samples'] = samples or [{'note': 'no case explored'}]
    n_fun = len(pr['functions']) if pr else 0
    n_ded = sum(1 for f in (pr['functions'] if pr else []) if f.get('mode') == 'deductive')
    cov['explanation'] = (
        'contract-based deductive verification of the real source: %d functions under contract (%d deductive), %d/%d obligations '
        'discharged; bounded native floor %s. Obligations are regenerated from %s on every run.' % (
            n_fun, n_ded, pr['n_discharged'] if pr else 0, pr['n_obligations'] if pr else 0,
            ('ran %d cases' % fl['evaluations']) if fl else 'absent', os.environ.get('VERIF_REPO', '/repo')))
    cov['undecided'] = undecided
    cov['known_findings_reported'] = known_lines
    cov['checker_errors'] = checker_errors
    return {'property_id': prop, 'tier': tier, 'seed': seed, 'level': level, 'coverage': cov, 'assumptions': assumptions,
            'wall_s': round(wall, 2), 'violations': len(violations)}
