"""pyvc.expr — symbolic evaluation of expressions; list / dict / string primitives."""
from __future__ import annotations
import ast
import z3
from .theory import *
from .state import *
from .contract import *


class ExprMixin:
    # ------------------------------------------------------------------ helpers
    _fresh_log = None

    def fresh(self, sort, name='t'):
        k = z3.FreshConst(sort, name)
        if ExprMixin._fresh_log is not None:
            ExprMixin._fresh_log.append(k)
        return k

    def truthy(self, sv: SV, st: State):
        k = sv.kind
        if k == 'bool': return sv.t
        if k == 'none': return z3.BoolVal(False)
        if k == 'int': return sv.t != 0
        if k == 'real': return sv.t != 0
        if k == 'str': return sv.t != str_const('')
        if k == 'tuple': return z3.BoolVal(len(sv.elts) > 0)
        if k == 'ref':
            c = sv.cls
            if c == 'list': return self.list_len(sv.t, st) > 0
            if c in ('dict', 'set'): return st.h.size(sv.t) > 0
            if c is not None: return z3.BoolVal(True)      # instances without __bool__/__len__ (PJS assets: __len__ >= 2)
            return self._ref_truthy(sv.t, st)
        if k == 'val':
            t = sv.t
            ty = sv.ty
            if ty is not None and ty.kind in ('obj',) and ty.opt:
                return z3.Not(is_VNone(t))
            if ty is not None and ty.kind == 'list' and ty.opt:
                return z3.And(z3.Not(is_VNone(t)), self.list_len(v_a(t), st) > 0)
            if ty is not None and ty.kind == 'dict' and ty.opt:
                return z3.And(z3.Not(is_VNone(t)), st.h.size(v_a(t)) > 0)
            return z3.If(is_VNone(t), False,
                   z3.If(is_VBool(t), v_b(t),
                   z3.If(is_VInt(t), v_i(t) != 0,
                   z3.If(is_VReal(t), v_r(t) != 0,
                   z3.If(is_VStr(t), v_s(t) != str_const(''), self._ref_truthy(v_a(t), st))))))
        raise Unsupported('truthiness of ' + k)

    def _ref_truthy(self, a, st):
        return z3.If(st.h.cls(a) == CLS_LIST, st.h.len(a) > 0,
               z3.If(z3.Or(st.h.cls(a) == CLS_DICT, st.h.cls(a) == CLS_SET), st.h.size(a) > 0, True))

    def eq(self, a: SV, b: SV, st: State):
        """Python == (identity on references: EQ-ID / PJS-EQ)"""
        if a.kind == 'tuple' or b.kind == 'tuple':
            if a.kind == b.kind and len(a.elts) == len(b.elts):
                return z3.And(*[self.eq(x, y, st) for x, y in zip(a.elts, b.elts)]) if a.elts else z3.BoolVal(True)
            raise Unsupported('tuple comparison')
        if a.kind == 'none' and b.kind == 'none': return z3.BoolVal(True)
        if a.kind == 'none': a, b = b, a
        if b.kind == 'none':
            if a.kind == 'val': return is_VNone(a.t)
            return z3.BoolVal(False)
        if a.kind == b.kind and a.kind != 'val':
            if a.kind == 'ref' and (a.cls == 'list' or b.cls == 'list'):
                # list == list: structural; supported only against a known-empty list
                raise Unsupported('list equality')
            return a.t == b.t
        if {a.kind, b.kind} == {'int', 'real'}:
            x = z3.ToReal(a.t) if a.kind == 'int' else a.t
            y = z3.ToReal(b.t) if b.kind == 'int' else b.t
            return x == y
        if a.kind == 'val' and b.kind == 'real' or a.kind == 'real' and b.kind == 'val':
            v, r = (a, b) if a.kind == 'val' else (b, a)
            return z3.Or(z3.And(is_VReal(v.t), v_r(v.t) == r.t), z3.And(is_VInt(v.t), z3.ToReal(v_i(v.t)) == r.t))
        if a.kind == 'val' and b.kind == 'int' or a.kind == 'int' and b.kind == 'val':
            v, r = (a, b) if a.kind == 'val' else (b, a)
            return z3.Or(z3.And(is_VInt(v.t), v_i(v.t) == r.t), z3.And(is_VReal(v.t), v_r(v.t) == z3.ToReal(r.t)))
        if a.kind == 'val' or b.kind == 'val':
            return to_val(a) == to_val(b)
        return z3.BoolVal(False)       # different static kinds

    def as_int(self, sv: SV, st: State, what='int operand'):
        if sv.kind == 'int': return sv.t
        if sv.kind == 'bool': return z3.If(sv.t, 1, 0)
        if sv.kind == 'val':
            self.side_raise(st, 'TypeError', z3.Not(is_VInt(sv.t)), what)
            return v_i(sv.t)
        raise Unsupported('as_int of ' + sv.kind)

    def as_num(self, sv: SV, st: State):
        """('int'|'real', term)"""
        if sv.kind == 'int': return 'int', sv.t
        if sv.kind == 'real': return 'real', sv.t
        if sv.kind == 'bool': return 'int', z3.If(sv.t, 1, 0)
        if sv.kind == 'val':
            if sv.ty is not None and sv.ty.kind == 'real':
                self.side_raise(st, 'TypeError', z3.Not(z3.Or(is_VReal(sv.t), is_VInt(sv.t))), 'number')
                return 'real', z3.If(is_VInt(sv.t), z3.ToReal(v_i(sv.t)), v_r(sv.t))
            self.side_raise(st, 'TypeError', z3.Not(is_VInt(sv.t)), 'number')
            return 'int', v_i(sv.t)
        raise Unsupported('as_num of ' + sv.kind)

    def as_ref(self, sv: SV, st: State, what='attribute access'):
        """address of an object value; None / non-reference raises AttributeError (side exit)"""
        if sv.kind == 'ref': return sv.t
        if sv.kind == 'val':
            self.side_raise(st, 'AttributeError', z3.Not(is_VRef(sv.t)), what)
            a = v_a(sv.t)
            return a
        if sv.kind == 'none':
            self.side_raise(st, 'AttributeError', z3.BoolVal(True), what)
            return self.fresh(Addr, 'dead')
        raise Unsupported('attribute access on ' + sv.kind)

    def assume_type(self, sv: SV, st: State):
        """TYPES: a value read from a typed location has its declared type (tag, class tag, allocatedness)"""
        ty = sv.ty
        if ty is None:
            return
        cid = {'list': CLS_LIST, 'dict': CLS_DICT, 'set': CLS_SET}.get(ty.kind)
        if ty.kind == 'obj' and ty.cls:
            cid = class_id(ty.cls)
        if sv.kind == 'ref':
            self.note_ref(sv.t, st)
            if cid is not None:
                st.assume(st.h.cls(sv.t) == cid)
        elif sv.kind == 'val' and ty.kind != 'val':
            st.assume(tag_pred(sv.t, ty))
            if ty.kind in ('obj', 'list', 'dict', 'set'):
                a = v_a(sv.t)
                facts = [a >= 0, a < st.h.alloc]
                if cid is not None:
                    facts.append(st.h.cls(a) == cid)
                st.assume(z3.Implies(is_VRef(sv.t), z3.And(*facts)))

    def note_ref(self, a, st: State):
        """instantiated heap-closedness: a reference read from the heap is allocated"""
        st.assume(z3.And(a >= 0, a < st.h.alloc))

    # ------------------------------------------------------------------ lists
    def new_list(self, st: State, elem: T | None = None) -> SV:
        a = st.alloc_addr(CLS_LIST)
        st.set_arr('L_len', z3.Store(st.h.arr['L_len'], a, z3.IntVal(0)))
        st.set_arr('L_bag', z3.Store(st.h.arr['L_bag'], a, EMPTY_BAG))
        return sv_ref(a, List(elem))

    def list_len(self, l, st: State):
        n = st.h.len(l)
        st.assume(n >= 0)
        st.assume((n == 0) == (st.h.bagof(l) == EMPTY_BAG))
        return n

    def list_append(self, l, v_sv: SV, st: State):
        v = to_val(v_sv)
        n = st.h.len(l)
        st.assume(n >= 0)
        h = st.h
        st.set_arr('L_at', z3.Store(h.arr['L_at'], l, z3.Store(z3.Select(h.arr['L_at'], l), n, v)))
        st.set_arr('L_len', z3.Store(h.arr['L_len'], l, n + 1))
        st.set_arr('L_bag', z3.Store(h.arr['L_bag'], l, z3.Store(h.bagof(l), v, h.bag(l, v) + 1)))

    def box_tuple(self, v: SV, elem: T | None, st: State) -> SV:
        """a tuple display stored into a container whose element type is a heap-modelled tuple class: allocate the object"""
        info = self.reg.classes.get(elem.cls) if elem is not None and elem.kind == 'obj' else None
        flds = getattr(info, 'tuple_fields', None) if info is not None else None
        if not flds or len(flds) != len(v.elts):
            raise Unsupported('tuple stored into a container without a tuple element class')
        a = st.alloc_addr(class_id(elem.cls))
        o = sv_ref(a, Obj(elem.cls))
        for f, x in zip(flds, v.elts):
            self.set_attr(o, f, x, st)
        return o

    def list_extend(self, l, m, st: State):
        h = st.h
        n, k = h.len(l), h.len(m)
        st.assume(n >= 0); st.assume(k >= 0)
        B = self.fresh(BagSort, 'extbag')
        A = self.fresh(SeqSort, 'extat')
        v = z3.Const('v!e', Val); j = z3.Int('j!e')
        st.assume(z3.ForAll([v], z3.Select(B, v) == h.bag(l, v) + h.bag(m, v), patterns=[z3.Select(B, v)]))
        st.assume(z3.ForAll([j], z3.Implies(z3.And(0 <= j, j < n + k), z3.Select(A, j) == z3.If(j < n, h.at(l, j), h.at(m, j - n))),
                            patterns=[z3.Select(A, j)]))
        st.set_arr('L_at', z3.Store(h.arr['L_at'], l, A))
        st.set_arr('L_len', z3.Store(h.arr['L_len'], l, n + k))
        st.set_arr('L_bag', z3.Store(h.arr['L_bag'], l, B))

    def list_remove(self, l, v_sv: SV, st: State):
        v = to_val(v_sv)
        h = st.h
        self.side_raise(st, 'ValueError', h.bag(l, v) <= 0, 'list.remove(x): x not in list')
        st.assume(h.len(l) >= 1)
        A = self.fresh(SeqSort, 'rmat')
        st.set_arr('L_at', z3.Store(h.arr['L_at'], l, A))
        st.set_arr('L_len', z3.Store(h.arr['L_len'], l, h.len(l) - 1))
        st.set_arr('L_bag', z3.Store(h.arr['L_bag'], l, z3.Store(h.bagof(l), v, h.bag(l, v) - 1)))
        # coupling instance: remaining positions hold remaining elements (bag view is authoritative)

    def list_copy(self, l, st: State, elem=None) -> SV:
        h = st.h
        r = self.new_list(st, elem)
        st.set_arr('L_len', z3.Store(st.h.arr['L_len'], r.t, h.len(l)))
        st.set_arr('L_bag', z3.Store(st.h.arr['L_bag'], r.t, h.bagof(l)))
        st.set_arr('L_at', z3.Store(st.h.arr['L_at'], r.t, z3.Select(h.arr['L_at'], l)))
        st.assume(h.len(l) >= 0)
        return r

    def list_contains(self, l, v_sv: SV, st: State):
        return st.h.bag(l, to_val(v_sv)) > 0

    def list_index_read(self, l_sv: SV, idx: SV, st: State) -> SV:
        l = l_sv.t
        n = self.list_len(l, st)
        i = self.as_int(idx, st)
        i2 = z3.If(i < 0, n + i, i)
        self.side_raise(st, 'IndexError', z3.Or(i2 < 0, i2 >= n), 'list index')
        v = st.h.at(l, i2)
        st.assume(st.h.bag(l, v) > 0)
        return self.elem_sv(v, l_sv.ty.elem if l_sv.ty else None, st)

    def elem_sv(self, v, elem: T | None, st: State) -> SV:
        sv = from_val(v, elem)
        if elem is not None and not elem.opt and elem.kind != 'val':
            st.assume(tag_pred(v, elem))          # typing assumption TYPES (element type of a typed list)
        if sv.kind == 'ref':
            st.assume(v == VRef(sv.t))            # canonical form: makes Addr-quantified triggers match this element
        self.assume_type(sv, st)
        return sv

    # ------------------------------------------------------------------ dicts
    def new_dict(self, st: State, key=None, elem=None) -> SV:
        a = st.alloc_addr(CLS_DICT)
        st.set_arr('D_has', z3.Store(st.h.arr['D_has'], a, EMPTY_HAS))
        st.set_arr('D_size', z3.Store(st.h.arr['D_size'], a, z3.IntVal(0)))
        return sv_ref(a, Dict(key, elem))

    def dict_set(self, d, k_sv: SV, v_sv: SV, st: State, own=False):
        k, v = to_val(k_sv), to_val(v_sv)
        if own and v_sv.kind == 'ref':
            # a container stored as the value of a schema-typed dict of containers becomes owned by that dict
            st.set_arr('own_obj', z3.Store(st.h.arr['own_obj'], v_sv.t, d))
            st.set_arr('own_fld', z3.Store(st.h.arr['own_fld'], v_sv.t, z3.IntVal(field_id('<dict value>'))))
        h = st.h
        had = h.has(d, k)
        n = h.size(d)
        st.assume(n >= 0)
        st.set_arr('D_val', z3.Store(h.arr['D_val'], d, z3.Store(z3.Select(h.arr['D_val'], d), k, v)))
        st.set_arr('D_has', z3.Store(h.arr['D_has'], d, z3.Store(z3.Select(h.arr['D_has'], d), k, z3.BoolVal(True))))
        st.set_arr('D_size', z3.Store(h.arr['D_size'], d, z3.If(had, n, n + 1)))
        ka = z3.Select(h.arr['D_keyat'], d)
        st.set_arr('D_keyat', z3.Store(h.arr['D_keyat'], d, z3.If(had, ka, z3.Store(ka, n, k))))

    def dict_get(self, d_sv: SV, k_sv: SV, st: State, default: SV | None = None, strict=True) -> SV:
        d = d_sv.t
        k = to_val(k_sv)
        h = st.h
        elem = d_sv.ty.elem if d_sv.ty else None
        ck = self.const_str(k_sv)
        if d_sv.ty is not None and d_sv.ty.rec is not None and ck is not None and ck in d_sv.ty.rec:
            elem = d_sv.ty.rec[ck]
            if d_sv.ty.req and ck in d_sv.ty.req:
                st.assume(h.has(d, k))        # TYPES: required key of a record-typed dict
        if strict:
            self.side_raise(st, 'KeyError', z3.Not(h.has(d, k)), 'dict[key]')
            return self.elem_sv(h.val(d, k), elem, st)
        dv = default if default is not None else SV_NONE
        present = self.elem_sv(h.val(d, k), elem, st) if False else from_val(h.val(d, k), elem)
        if elem is not None and not elem.opt and elem.kind != 'val':
            st.assume(z3.Implies(h.has(d, k), tag_pred(h.val(d, k), elem)))
        if present.kind == 'ref':
            st.assume(z3.Implies(h.has(d, k), z3.And(present.t >= 0, present.t < h.alloc)))
        return merge_sv(h.has(d, k), present, dv)

    def const_str(self, sv: SV):
        if sv.kind != 'str' or sv.t is None:
            return None
        from .theory import _str_consts
        for lit, c in _str_consts.items():
            if z3.eq(c, sv.t):
                return lit
        return None

    def dict_del(self, d, k_sv: SV, st: State):
        k = to_val(k_sv)
        h = st.h
        self.side_raise(st, 'KeyError', z3.Not(h.has(d, k)), 'del dict[key]')
        st.set_arr('D_has', z3.Store(h.arr['D_has'], d, z3.Store(z3.Select(h.arr['D_has'], d), k, z3.BoolVal(False))))
        st.set_arr('D_size', z3.Store(h.arr['D_size'], d, h.size(d) - 1))
        st.set_arr('D_keyat', z3.Store(h.arr['D_keyat'], d, self.fresh(SeqSort, 'delkeys')))

    # ------------------------------------------------------------------ expression evaluation
    def ev(self, e, st: State) -> SV:
        m = getattr(self, 'ev_' + type(e).__name__, None)
        if m is None:
            raise Unsupported('expression ' + type(e).__name__)
        return m(e, st)

    def ev_Constant(self, e, st):
        v = e.value
        if v is None: return SV_NONE
        if isinstance(v, bool): return sv_bool(v)
        if isinstance(v, int): return sv_int(v)
        if isinstance(v, float): return sv_real(repr(v))
        if isinstance(v, str): return sv_str(v)
        raise Unsupported('constant ' + repr(v))

    def ev_Name(self, e, st):
        n = e.id
        if n in st.locals:
            return st.locals[n]
        if n in self.reg.classes or n in self.reg.exceptions:
            return SV('cls', py=n)
        if n in self.reg.by_func or n in self.BUILTINS:
            return SV('func', py=n)
        if n in self.module_consts:
            return self.module_consts[n]
        raise Unsupported('unbound name ' + n)

    def ev_Tuple(self, e, st):
        return sv_tuple([self.ev(x, st) for x in e.elts])

    def ev_List(self, e, st):
        elts = [self.ev(x, st) for x in e.elts]
        elem = None
        if elts and all(x.kind == 'ref' and x.cls == elts[0].cls for x in elts):
            elem = elts[0].ty
        elif elts and all(x.kind == elts[0].kind and x.kind in ('int', 'str', 'bool', 'real') for x in elts):
            elem = T(elts[0].kind)
        r = self.new_list(st, elem)
        for x in elts:
            self.list_append(r.t, x, st)
        return r

    def ev_Dict(self, e, st):
        r = self.new_dict(st)
        for k, v in zip(e.keys, e.values):
            if k is None:
                raise Unsupported('dict unpacking')
            self.dict_set(r.t, self.ev(k, st), self.ev(v, st), st)
        return r

    def ev_JoinedStr(self, e, st):
        parts = []
        for v in e.values:
            if isinstance(v, ast.Constant):
                parts.append(sv_str(v.value))
            else:
                parts.append(self.to_str(self.ev(v.value, st), st))
        if not parts:
            return sv_str('')
        t = parts[0].t
        for p in parts[1:]:
            t = concat(t, p.t)
        return SV('str', t)

    def to_str(self, sv: SV, st) -> SV:
        if sv.kind == 'str': return sv
        if sv.kind == 'int': return SV('str', py_str(sv.t))
        if sv.kind == 'real': return SV('str', str_of_real(sv.t))
        if sv.kind == 'val' and sv.ty is not None and sv.ty.kind == 'str' and not sv.ty.opt:
            return SV('str', v_s(sv.t))
        if sv.kind == 'val' and sv.ty is not None and sv.ty.kind == 'str':
            return SV('str', z3.If(is_VStr(sv.t), v_s(sv.t), str_of_val(sv.t)))        # str(s) == s
        if sv.kind == 'val' and sv.ty is not None and sv.ty.kind == 'int':
            return SV('str', z3.If(is_VInt(sv.t), py_str(v_i(sv.t)), str_of_val(sv.t)))
        if sv.kind == 'bool':
            return SV('str', z3.If(sv.t, str_const('True'), str_const('False')))       # str(True) == 'True'
        if sv.kind == 'val' and sv.ty is not None and sv.ty.kind == 'bool':
            return SV('str', z3.If(is_VBool(sv.t), z3.If(v_b(sv.t), str_const('True'), str_const('False')), str_of_val(sv.t)))
        if sv.kind in ('val', 'none', 'ref'):
            return SV('str', str_of_val(to_val(sv)))
        raise Unsupported('str() of ' + sv.kind)

    def ev_Attribute(self, e, st):
        # module attributes used as values
        if isinstance(e.value, ast.Name) and e.value.id not in st.locals:
            if e.value.id in ('copy', 'json', 'logging', 'yaml', 'zipfile'):
                return SV('func', py=e.value.id + '.' + e.attr)
            if e.value.id == 'os':
                return SV('mod', py='os.' + e.attr)
        if isinstance(e.value, ast.Attribute) and isinstance(e.value.value, ast.Name) and e.value.value.id == 'os' \
                and e.value.value.id not in st.locals and e.value.attr == 'path':
            return SV('func', py='os.path.' + e.attr)
        if isinstance(e.value, ast.Name) and e.value.id not in st.locals and e.value.id in self.reg.class_consts \
                and e.attr in self.reg.class_consts[e.value.id]:
            return self.reg.class_consts[e.value.id][e.attr]
        if e.attr == '__name__' and isinstance(e.value, ast.Attribute) and e.value.attr == '__class__':
            # type(x).__name__ of an object of a library-generated class: a string field of the assumed object model
            o = self.ev(e.value.value, st)
            cls = o.cls if o.kind == 'ref' else (o.ty.cls if o.ty is not None and o.ty.kind == 'obj' else None)
            info = self.reg.classes.get(cls) if cls else None
            if info is not None and getattr(info, 'class_name_field', None):
                return self.get_attr(o, info.class_name_field, st)
            raise Unsupported('__class__.__name__ of %s' % cls)
        o = self.ev(e.value, st)
        return self.get_attr(o, e.attr, st)

    def get_attr(self, o: SV, attr: str, st: State) -> SV:
        if o.kind == 'cls':
            c = self.reg.method(o.py, attr)
            if c is not None:
                return SV('func', py=(o.py, attr))
            raise Unsupported('class attribute %s.%s' % (o.py, attr))
        if o.kind == 'val' and o.ty is not None and o.ty.kind in ('list', 'dict', 'set'):
            o = sv_ref(self.as_ref(o, st, '.' + attr), NonOpt(o.ty))
        if o.kind == 'val' and (o.ty is None or o.ty.kind == 'val') and attr in ('append', 'extend'):
            # dynamically typed value used as a list: anything else has no such method (AttributeError exit)
            self.side_raise(st, 'AttributeError', z3.Not(z3.And(is_VRef(o.t), st.h.cls(v_a(o.t)) == CLS_LIST)), '.%s on non-list' % attr)
            o = sv_ref(v_a(o.t), List(None))
        if o.kind == 'ref' and o.cls in ('list', 'dict', 'set'):
            return SV('func', py=('bound', o, attr))
        if o.kind == 'str':
            return SV('func', py=('bound', o, attr))
        cls = o.cls if o.kind == 'ref' else (o.ty.cls if o.ty is not None and o.ty.kind == 'obj' else None)
        if cls is not None:
            c = self.reg.method(cls, attr)
            if c is not None:
                if c.is_property:
                    a = self.as_ref(o, st, '.' + attr)
                    return self.call_contract(c, [sv_ref(a, Obj(cls))], {}, st, site='.' + attr)
                return SV('func', py=('method', o, cls, attr))
        a = self.as_ref(o, st, '.' + attr)
        ty = self.reg.schema.attr_type(cls, attr)
        if ty is None:
            raise Unsupported('attribute %s of %s not in schema' % (attr, cls))
        sv = from_sort(st.h.f(self.reg.schema.storage(cls, attr), a), ty)
        self.assume_type(sv, st)
        return sv

    def ev_Subscript(self, e, st):
        o = self.ev(e.value, st)
        if isinstance(e.slice, ast.Slice):
            raise Unsupported('slice')
        k = self.ev(e.slice, st)
        return self.subscript(o, k, st)

    def subscript(self, o: SV, k: SV, st: State) -> SV:
        if o.kind == 'tuple':
            if k.kind == 'int' and z3.is_int_value(z3.simplify(k.t)):
                i = z3.simplify(k.t).as_long()
                return o.elts[i]
            raise Unsupported('tuple index')
        if o.kind == 'val' and o.ty is not None and o.ty.kind in ('dict', 'list'):
            a = self.as_ref(o, st, 'subscript')
            o = sv_ref(a, NonOpt(o.ty))
        tcls = o.cls if o.kind == 'ref' else (o.ty.cls if o.ty is not None and o.ty.kind == 'obj' else None)
        tinfo = self.reg.classes.get(tcls) if tcls else None
        if tinfo is not None and getattr(tinfo, 'tuple_fields', None):
            # heap-modelled tuple: constant index -> field
            if k.kind == 'int' and z3.is_int_value(z3.simplify(k.t)):
                i = z3.simplify(k.t).as_long()
                if o.kind == 'val':
                    o = sv_ref(self.as_ref(o, st, 'subscript'), Obj(tcls))
                if not (-len(tinfo.tuple_fields) <= i < len(tinfo.tuple_fields)):
                    self.side_raise(st, 'IndexError', z3.BoolVal(True), 'tuple index out of range')
                    return SV('val', self.fresh(Val, 'dead'), T.val)
                return self.get_attr(o, tinfo.tuple_fields[i], st)
            raise Unsupported('tuple index')
        if o.kind == 'val' and (o.ty is None or o.ty.kind == 'val') and k.kind == 'str':
            # dynamically typed container subscripted by a string: must be a dict (anything else: TypeError exit)
            self.side_raise(st, 'TypeError', z3.Not(z3.And(is_VRef(o.t), st.h.cls(v_a(o.t)) == CLS_DICT)), 'subscript on non-dict')
            o = sv_ref(v_a(o.t), Dict(None, None))
        if o.kind == 'ref' and o.cls == 'dict':
            return self.dict_get(o, k, st)
        if o.kind == 'ref' and o.cls == 'list':
            return self.list_index_read(o, k, st)
        raise Unsupported('subscript on %s/%s' % (o.kind, o.cls))

    def ev_UnaryOp(self, e, st):
        v = self.ev(e.operand, st)
        if isinstance(e.op, ast.Not):
            return sv_bool(z3.Not(self.truthy(v, st)))
        if isinstance(e.op, ast.USub):
            k, t = self.as_num(v, st)
            return SV(k, -t)
        raise Unsupported('unary op')

    def ev_BoolOp(self, e, st):
        # value semantics; the right operand is evaluated in a forked state and the two states are merged (so that an
        # operand that allocates, e.g. a comprehension, is handled like a conditional expression)
        vals = e.values
        res = self.ev(vals[0], st)
        for nxt in vals[1:]:
            c = z3.simplify(self.truthy(res, st))
            take_next = c if isinstance(e.op, ast.And) else z3.simplify(z3.Not(c))
            if z3.is_true(take_next):
                res = self.ev(nxt, st)
                continue
            if z3.is_false(take_next):
                break
            n = len(st.pc)
            sa = st.fork(); sa.pc.append(take_next)
            r2 = self.ev(nxt, sa)
            sb = st.fork(); sb.pc.append(z3.Not(take_next))
            m = merge_states(n, take_next, sa, sb)
            st.h, st.pc, st.locals = m.h, m.pc, m.locals
            res = merge_sv(take_next, r2, res)
        return res

    def ev_IfExp(self, e, st):
        c = self.truthy(self.ev(e.test, st), st)
        sa = st.fork(); sa.assume(c)
        sb = st.fork(); sb.assume(z3.Not(c))
        n = len(st.pc)
        a = self.ev(e.body, sa)
        b = self.ev(e.orelse, sb)
        m = merge_states(n, c, sa, sb)
        st.h, st.pc = m.h, m.pc
        return merge_sv(c, a, b)

    def ev_NamedExpr(self, e, st):
        v = self.ev(e.value, st)
        st.locals[e.target.id] = v
        return v

    def ev_Compare(self, e, st):
        left = self.ev(e.left, st)
        out = []
        for op, rhs in zip(e.ops, e.comparators):
            if isinstance(op, (ast.In, ast.NotIn)) and isinstance(rhs, (ast.List, ast.Tuple, ast.Set)):
                # membership in a literal: no allocation, element-wise equality (exact)
                elts = [self.ev(x, st) for x in rhs.elts]
                r = z3.Or(*[self.eq(left, y, st) for y in elts]) if elts else z3.BoolVal(False)
                out.append(r if isinstance(op, ast.In) else z3.Not(r))
                left = None
                continue
            if isinstance(op, (ast.Eq, ast.NotEq)) and isinstance(rhs, ast.List) and not rhs.elts and left is not None and \
                    (left.kind == 'ref' and left.cls == 'list' or (left.kind == 'val' and left.ty is not None and left.ty.kind == 'list')):
                # comparison of a list with the empty list display: equal iff the list is empty (no allocation needed)
                l_ = left.t if left.kind == 'ref' else self.as_ref(left, st, '== []')
                r = self.list_len(l_, st) == 0
                out.append(r if isinstance(op, ast.Eq) else z3.Not(r))
                left = None
                continue
            if isinstance(op, (ast.In, ast.NotIn)) and isinstance(rhs, (ast.ListComp, ast.GeneratorExp)) and len(rhs.generators) == 1:
                # x in [f(a) for a in L if c]  ==  any(f(a) == x for a in L if c): the temporary list is never observable
                lhs_expr = e.left if rhs is e.comparators[0] else None
                if lhs_expr is not None:
                    g = ast.GeneratorExp(elt=ast.Compare(left=rhs.elt, ops=[ast.Eq()], comparators=[lhs_expr]), generators=rhs.generators)
                    ast.copy_location(g, rhs); ast.fix_missing_locations(g)
                    r = self.gen_any_all(g, st, True).t
                    out.append(r if isinstance(op, ast.In) else z3.Not(r))
                    left = None
                    continue
            right = self.ev(rhs, st)
            out.append(self.compare(op, left, right, st))
            left = right
        return sv_bool(z3.And(*out) if len(out) > 1 else out[0])

    def compare(self, op, a: SV, b: SV, st: State):
        if isinstance(op, (ast.Eq, ast.NotEq)):
            # comparison with an empty list literal
            for x, y in ((a, b), (b, a)):
                if y.kind == 'ref' and y.cls == 'list' and getattr(y, 'py', None) == 'emptylit' and x.kind == 'ref' and x.cls == 'list':
                    r = self.list_len(x.t, st) == 0
                    return r if isinstance(op, ast.Eq) else z3.Not(r)
            r = self.eq(a, b, st)
            return r if isinstance(op, ast.Eq) else z3.Not(r)
        if isinstance(op, (ast.Is, ast.IsNot)):
            if b.kind == 'none' or a.kind == 'none':
                r = self.eq(a, b, st)
            elif a.kind == 'ref' and b.kind == 'ref':
                r = a.t == b.t
            else:
                r = self.eq(a, b, st)
            return r if isinstance(op, ast.Is) else z3.Not(r)
        if isinstance(op, (ast.In, ast.NotIn)):
            r = self.contains(b, a, st)
            return r if isinstance(op, ast.In) else z3.Not(r)
        if isinstance(op, (ast.Lt, ast.LtE, ast.Gt, ast.GtE)):
            ka, ta = self.as_num(a, st)
            kb, tb = self.as_num(b, st)
            if ka != kb:
                ta = z3.ToReal(ta) if ka == 'int' else ta
                tb = z3.ToReal(tb) if kb == 'int' else tb
            return {ast.Lt: lambda: ta < tb, ast.LtE: lambda: ta <= tb, ast.Gt: lambda: ta > tb, ast.GtE: lambda: ta >= tb}[type(op)]()
        raise Unsupported('comparison op')

    def contains(self, cont: SV, x: SV, st: State):
        if cont.kind == 'tuple':
            return z3.Or(*[self.eq(x, y, st) for y in cont.elts]) if cont.elts else z3.BoolVal(False)
        if cont.kind == 'val' and cont.ty is not None and cont.ty.kind in ('list', 'dict'):
            a = self.as_ref(cont, st, 'in')
            cont = sv_ref(a, NonOpt(cont.ty))
        if cont.kind == 'val' and (cont.ty is None or cont.ty.kind == 'val'):
            # dynamically typed container: a dict (membership among the keys) or a list; anything else -> TypeError exit
            isd = z3.And(is_VRef(cont.t), st.h.cls(v_a(cont.t)) == CLS_DICT)
            isl = z3.And(is_VRef(cont.t), st.h.cls(v_a(cont.t)) == CLS_LIST)
            self.side_raise(st, 'TypeError', z3.Not(z3.Or(isd, isl)), '`in` on a non-container')
            return z3.If(isd, st.h.has(v_a(cont.t), to_val(x)), st.h.bag(v_a(cont.t), to_val(x)) > 0)
        if cont.kind == 'ref' and cont.cls == 'list':
            return self.list_contains(cont.t, x, st)
        if cont.kind == 'ref' and cont.cls in ('dict', 'set'):
            return st.h.has(cont.t, to_val(x))
        if cont.kind == 'iter' and cont.py[0] == 'keys':
            return st.h.has(cont.py[1].t, to_val(x))
        raise Unsupported('membership in %s/%s' % (cont.kind, cont.cls))

    def ev_BinOp(self, e, st):
        a = self.ev(e.left, st)
        b = self.ev(e.right, st)
        op = e.op
        if isinstance(op, ast.Add):
            if a.kind == 'str' or b.kind == 'str':
                sa = a if a.kind == 'str' else self._must_str(a, st)
                sb = b if b.kind == 'str' else self._must_str(b, st)
                return SV('str', concat(sa.t, sb.t))
            if a.kind == 'ref' and a.cls == 'list' and b.kind == 'ref' and b.cls == 'list':
                r = self.list_copy(a.t, st, a.ty.elem if a.ty else None)
                self.list_extend(r.t, b.t, st)
                return r
        if isinstance(op, ast.Mod) and a.kind == 'str':
            lit = self.const_str(a)
            if lit is not None and b.kind == 'tuple' and lit.count('%') == lit.count('%s') == len(b.elts) and all(x.kind == 'str' for x in b.elts):
                # '<text>%s<text>%s...' % (s1, s2, ...) with string arguments: the concatenation (the value may matter, e.g. as a key)
                parts = lit.split('%s')
                t = str_const(parts[0])
                for piece, x in zip(parts[1:], b.elts):
                    t = concat(t, x.t)
                    t = concat(t, str_const(piece))
                return SV('str', t)
            return SV('str', self.fresh(Str, 'fmt'))        # other %-formatting: only used for messages, whose text is dropped
        if isinstance(op, (ast.Add, ast.Sub, ast.Mult)):
            ka, ta = self.as_num(a, st)
            kb, tb = self.as_num(b, st)
            k = 'int' if ka == kb == 'int' else 'real'
            if k == 'real':
                ta = z3.ToReal(ta) if ka == 'int' else ta
                tb = z3.ToReal(tb) if kb == 'int' else tb
            r = {ast.Add: lambda: ta + tb, ast.Sub: lambda: ta - tb, ast.Mult: lambda: ta * tb}[type(op)]()
            return SV(k, r)
        raise Unsupported('binary op ' + type(op).__name__)

    def _must_str(self, sv, st):
        if sv.kind == 'val':
            self.side_raise(st, 'TypeError', z3.Not(is_VStr(sv.t)), 'str + non-str')
            return SV('str', v_s(sv.t))
        raise Unsupported('str + ' + sv.kind)

    # ------------------------------------------------------------------ comprehensions / generators
    def _comp_parts(self, e):
        if len(e.generators) != 1 or e.generators[0].is_async:
            raise Unsupported('nested comprehension')
        g = e.generators[0]
        return g.target, g.iter, g.ifs

    def bound_iter(self, it_sv: SV, st: State):
        """(list address, elem type) for a comprehension source; the heap and the list term are made pattern-safe"""
        named_heap(st)
        if it_sv.kind in ('ref', 'val') and it_sv.t is not None:
            it_sv = st.name_sv(it_sv)
        return self._bound_iter(it_sv, st)

    def _bound_iter(self, it_sv: SV, st: State):
        if it_sv.kind == 'val' and it_sv.ty is not None and it_sv.ty.kind == 'list':
            a = self.as_ref(it_sv, st, 'iteration')
            it_sv = sv_ref(a, List(it_sv.ty.elem))
        if it_sv.kind == 'ref' and it_sv.cls == 'list':
            return it_sv.t, (it_sv.ty.elem if it_sv.ty else None)
        raise Unsupported('comprehension over %s/%s' % (it_sv.kind, it_sv.cls))

    def eval_with_binding(self, target, elem_sv: SV, exprs, st: State, bound=None, guard=None):
        """evaluate pure expressions with `target` bound to elem_sv; returns list of SV; the heap must not change.
        Fresh constants created while evaluating (results of calls by contract, witnesses) depend on the bound element:
        they are replaced by fresh functions applied to it (Skolemisation), so quantifying over the element stays sound."""
        sub = st.fork()
        self.bind_target(target, elem_sv, sub)
        if guard is not None:
            sub.pc.append(guard)
        npc = len(sub.pc)
        saved = ExprMixin._fresh_log
        ExprMixin._fresh_log = log = []
        try:
            vals = [self.ev(x, sub) for x in exprs]
        finally:
            ExprMixin._fresh_log = saved
        if saved is not None:
            saved.extend(log)
        if any(not z3.eq(sub.h.arr[n], st.h.arr[n]) for n in st.h.arr) or not z3.eq(sub.h.alloc, st.h.alloc):
            raise Unsupported('side effect inside comprehension')
        facts = sub.pc[npc:]
        if log and bound is not None:
            subst = [(k, z3.Function(str(k) + '!sk', bound.sort(), k.sort())(bound)) for k in log]
            facts = [z3.substitute(f, *subst) for f in facts]
            vals = [self._subst_sv(v, subst) for v in vals]
        elif log:
            raise Unsupported('fresh constants under a binder without a bound variable')
        return vals, facts

    def _subst_sv(self, v: SV, subst):
        if v.kind == 'tuple':
            return sv_tuple([self._subst_sv(x, subst) for x in v.elts])
        if v.t is None:
            return v
        return SV(v.kind, z3.substitute(v.t, *subst), v.ty, None, v.py)

    def ev_SetComp(self, e, st):
        """{f(x) for x in L}: a fresh set whose members are exactly the images; its size obeys the cardinality law SETCARD
        (|image| <= len L, with equality iff no two positions of L carry the same image) — a theorem about finite lists and
        sets (proved separately in Lean, lemmas/SetCard.lean), assumed here as part of the container theory"""
        target, it, ifs = self._comp_parts(e)
        if ifs:
            raise Unsupported('set comprehension with a filter')
        l, elem = self.bound_iter(self.ev(it, st), st)
        h = st.h
        u = self.uid()
        xv, x2 = z3.Const('x!sc%d' % u, Val), z3.Const('x2!sc%d' % u, Val)
        x_sv = from_val(xv, elem)
        typed = (lambda v: tag_pred(v, elem)) if (elem is not None and not elem.opt and elem.kind != 'val') else (lambda v: z3.BoolVal(True))
        inl = lambda v: h.bag(l, v) > 0
        vals, facts = self.eval_with_binding(target, x_sv, [e.elt], st, bound=xv, guard=z3.And(typed(xv), inl(xv)))
        if facts:
            st.assume(z3.ForAll([xv], z3.Implies(z3.And(typed(xv), inl(xv)), z3.And(*facts)), patterns=[h.bag(l, xv)]))
        out = vals[0]
        fx = to_val(out)
        f_of = lambda v: z3.substitute(fx, (xv, v))
        a = st.alloc_addr(CLS_SET)
        HAS = self.fresh(SetVB, 'schas')
        n = self.fresh(z3.IntSort(), 'scsize')
        yv = z3.Const('y!sc%d' % u, Val)
        wit = z3.Function('wit!sc%d' % u, Val, Val)
        st.assume(z3.ForAll([xv], z3.Implies(z3.And(typed(xv), inl(xv)), z3.Select(HAS, fx)), patterns=[h.bag(l, xv)]))
        st.assume(z3.ForAll([yv], z3.Implies(z3.Select(HAS, yv), z3.And(typed(wit(yv)), inl(wit(yv)), f_of(wit(yv)) == yv)), patterns=[z3.Select(HAS, yv)]))
        inj = z3.ForAll([xv, x2], z3.Implies(z3.And(typed(xv), inl(xv), typed(x2), inl(x2), fx == f_of(x2)), xv == x2),
                        patterns=[z3.MultiPattern(h.bag(l, xv), h.bag(l, x2))])
        nodup = z3.ForAll([xv], h.bag(l, xv) <= 1, patterns=[h.bag(l, xv)])
        st.assume(z3.And(n >= 0, n <= h.len(l), (n == h.len(l)) == z3.And(inj, nodup)))
        st.set_arr('D_has', z3.Store(st.h.arr['D_has'], a, HAS))
        st.set_arr('D_size', z3.Store(st.h.arr['D_size'], a, n))
        return sv_ref(a, T('set', cls='set', elem=self._elem_of(out)))

    def _listcomp_of_dicts(self, e, st):
        """[{k1: f1(x), ...} for x in L] — a comprehension whose element is a dict display with constant keys and
        non-allocating value expressions: element j of the result is a NEW dict object (address base + j) with those entries
        for x = L[j]; nothing else changes."""
        target, it, ifs = self._comp_parts(e)
        l, elem = self.bound_iter(self.ev(it, st), st)
        h = st.h
        u = self.uid()
        xv = z3.Const('x!ld%d' % u, Val)
        x_sv = from_val(xv, elem)
        typing = tag_pred(xv, elem) if (elem is not None and not elem.opt and elem.kind != 'val') else z3.BoolVal(True)
        inl = h.bag(l, xv) > 0
        keys = [self.ev(k, st) for k in e.elt.keys]
        vals, facts = self.eval_with_binding(target, x_sv, list(e.elt.values), st, bound=xv, guard=z3.And(typing, inl))
        if facts:
            st.assume(z3.ForAll([xv], z3.Implies(z3.And(typing, inl), z3.And(*facts)), patterns=[h.bag(l, xv)]))
        n = self.list_len(l, st)
        base = self.fresh(z3.IntSort(), 'ldbase')
        st.assume(base == h.alloc)
        j = z3.Int('j!ld%d' % u)
        hasrow, valrow = EMPTY_HAS, z3.K(Val, VNone)
        for k_sv, v_sv in zip(keys, vals):
            hasrow = z3.Store(hasrow, to_val(k_sv), z3.BoolVal(True))
            valrow = z3.Store(valrow, to_val(k_sv), to_val(v_sv))
        new = {}
        for an in ('D_has', 'D_val', 'D_size', 'D_keyat', 'cls', 'own_obj', 'orig'):
            new[an] = self.fresh(h.arr[an].sort(), an + '!ld')
        # the list object itself comes after the element dicts
        R = base + n
        A_ = self.fresh(SeqSort, 'ldat')
        B_ = self.fresh(BagSort, 'ldbag')
        obj = lambda q: v_a(z3.Select(A_, q))
        st.assume(z3.ForAll([j], z3.Implies(z3.And(0 <= j, j < n), z3.And(
            z3.Select(A_, j) == VRef(base + j), z3.Select(B_, z3.Select(A_, j)) == 1,
            z3.Select(new['D_has'], obj(j)) == hasrow,
            z3.Select(new['D_val'], obj(j)) == z3.substitute(valrow, (xv, h.at(l, j))),
            z3.Select(new['D_size'], obj(j)) == len(set(str(to_val(k)) for k in keys)),
            z3.Select(new['cls'], obj(j)) == CLS_DICT, z3.Select(new['own_obj'], obj(j)) == -1, z3.Select(new['orig'], obj(j)) == obj(j))),
            patterns=[z3.Select(A_, j)]))
        v_ = z3.Const('v!ld%d' % u, Val)
        st.assume(z3.ForAll([v_], z3.And(z3.Select(B_, v_) >= 0, z3.Implies(z3.Select(B_, v_) > 0, z3.And(
            is_VRef(v_), v_a(v_) >= base, v_a(v_) < base + n, v_ == z3.Select(A_, v_a(v_) - base), z3.Select(B_, v_) == 1))), patterns=[z3.Select(B_, v_)]))
        x_ = z3.Const('x!lf%d' % u, Addr)
        for an in new:
            st.assume(z3.ForAll([x_], z3.Implies(z3.Or(x_ < base, x_ >= base + n), z3.Select(new[an], x_) == z3.Select(h.arr[an], x_)),
                                patterns=[z3.Select(new[an], x_), z3.Select(h.arr[an], x_)]))
            st.set_arr(an, new[an])
        st.h = st.h.with_(alloc=base + n)
        r = self.new_list(st, Dict(T.str, T.val))
        st.assume(r.t == R)
        st.set_arr('L_len', z3.Store(st.h.arr['L_len'], r.t, n))
        st.set_arr('L_bag', z3.Store(st.h.arr['L_bag'], r.t, B_))
        st.set_arr('L_at', z3.Store(st.h.arr['L_at'], r.t, A_))
        return r

    def ev_ListComp(self, e, st):
        if isinstance(e.elt, ast.Dict) and e.elt.keys and all(isinstance(k, ast.Constant) for k in e.elt.keys) and not self._comp_parts(e)[2]:
            return self._listcomp_of_dicts(e, st)
        target, it, ifs = self._comp_parts(e)
        l, elem = self.bound_iter(self.ev(it, st), st)
        h = st.h
        xv = z3.Const('x!lc%d' % self.uid(), Val)
        x_sv = from_val(xv, elem)
        typing = tag_pred(xv, elem) if (elem is not None and not elem.opt and elem.kind != 'val') else z3.BoolVal(True)
        inl = h.bag(l, xv) > 0
        vals, facts = self.eval_with_binding(target, x_sv, list(ifs) + [e.elt], st, bound=xv, guard=z3.And(typing, inl))
        cond = z3.And(*[self.truthy(v, st) for v in vals[:-1]]) if ifs else z3.BoolVal(True)
        if facts:
            st.assume(z3.ForAll([xv], z3.Implies(z3.And(typing, inl), z3.And(*facts)), patterns=[h.bag(l, xv)]))
        cond_facts = z3.BoolVal(True)
        out = vals[-1]
        identity = (out.kind == x_sv.kind and out.kind not in ('tuple', 'none') and out.t is not None
                    and x_sv.t is not None and z3.eq(out.t, x_sv.t))
        r = self.new_list(st, elem if identity else self._elem_of(out))
        R = r.t
        B = self.fresh(BagSort, 'lcbag')
        n = self.fresh(z3.IntSort(), 'lclen')
        st.assume(n >= 0); st.assume(n <= h.len(l))
        if identity:
            st.assume(z3.ForAll([xv], z3.Implies(z3.Not(z3.And(typing, inl)), z3.Select(B, xv) == 0), patterns=[z3.Select(B, xv)]))
            st.assume(z3.ForAll([xv], z3.Implies(z3.And(typing, inl),
                                                 z3.Select(B, xv) == z3.If(z3.And(inl, cond), h.bag(l, xv), 0)),
                                patterns=[z3.Select(B, xv)]))
            if not ifs:
                st.assume(n == h.len(l))
        else:
            # image: every element of the result is f(x) for some selected x of the source, and conversely
            yv = z3.Const('y!lc%d' % self.uid(), Val)
            fx = to_val(out)
            st.assume(z3.ForAll([xv], z3.Implies(z3.And(typing, cond_facts, inl, cond), z3.Select(B, fx) > 0),
                                patterns=[h.bag(l, xv)]))
            wit = z3.Function('wit!lc%d' % self.uid(), Val, Val)
            fw = z3.substitute(fx, (xv, wit(yv)))
            cw = z3.substitute(z3.And(typing, inl, cond), (xv, wit(yv)))
            canon = (wit(yv) == VRef(v_a(wit(yv)))) if (elem is not None and not elem.opt and elem.kind in ('obj', 'list', 'dict', 'set')) else z3.BoolVal(True)
            st.assume(z3.ForAll([yv], z3.Implies(z3.Select(B, yv) > 0, z3.And(cw, fw == yv, canon)), patterns=[z3.Select(B, yv)]))
            st.assume(z3.ForAll([yv], z3.Select(B, yv) >= 0, patterns=[z3.Select(B, yv)]))
            if not ifs:
                st.assume(n == h.len(l))
                A = self.fresh(SeqSort, 'lcat')
                j = z3.Int('j!lc')
                fj = z3.substitute(fx, (xv, h.at(l, j)))
                st.assume(z3.ForAll([j], z3.Implies(z3.And(0 <= j, j < n), z3.Select(A, j) == fj), patterns=[z3.Select(A, j)]))
                st.set_arr('L_at', z3.Store(st.h.arr['L_at'], R, A))
        st.set_arr('L_len', z3.Store(st.h.arr['L_len'], R, n))
        st.set_arr('L_bag', z3.Store(st.h.arr['L_bag'], R, B))
        if identity and not ifs:
            st.set_arr('L_at', z3.Store(st.h.arr['L_at'], R, z3.Select(h.arr['L_at'], l)))
        return r

    def _elem_of(self, sv: SV):
        if sv.kind == 'ref': return sv.ty
        if sv.kind in ('int', 'str', 'bool', 'real'): return T(sv.kind)
        if sv.kind == 'val': return sv.ty
        return None

    def gen_first(self, e, default: SV | None, st: State, strict: bool) -> SV:
        """next((elt for x in L if cond), default): the first element of L (in list order) satisfying cond"""
        target, it, ifs = self._comp_parts(e)
        l, elem = self.bound_iter(self.ev(it, st), st)
        h = st.h
        xv = z3.Const('x!nx%d' % self.uid(), Val)
        x_sv = from_val(xv, elem)
        typing = tag_pred(xv, elem) if (elem is not None and not elem.opt and elem.kind != 'val') else z3.BoolVal(True)
        vals, facts = self.eval_with_binding(target, x_sv, list(ifs) + [e.elt], st, bound=xv, guard=z3.And(typing, h.bag(l, xv) > 0))
        cond = z3.And(*[self.truthy(v, st) for v in vals[:-1]]) if ifs else z3.BoolVal(True)
        out = vals[-1]
        if facts:
            st.assume(z3.ForAll([xv], z3.Implies(z3.And(typing, h.bag(l, xv) > 0), z3.And(*facts)), patterns=[h.bag(l, xv)]))
        ff = z3.BoolVal(True)
        k = self.fresh(z3.IntSort(), 'firstk')
        n = self.list_len(l, st)
        j = z3.Int('j!nx')
        found = z3.And(0 <= k, k < n, z3.substitute(cond, (xv, h.at(l, k))))
        none_sat = z3.ForAll([xv], z3.Implies(z3.And(typing, ff, h.bag(l, xv) > 0), z3.Not(cond)), patterns=[h.bag(l, xv)])
        exists = z3.Bool('has!nx%d' % self.uid())
        st.assume(z3.Implies(exists, z3.And(found, h.bag(l, h.at(l, k)) > 0,
                  z3.ForAll([j], z3.Implies(z3.And(0 <= j, j < k), z3.Not(z3.substitute(cond, (xv, h.at(l, j))))), patterns=[h.at(l, j)]))))
        st.assume(z3.Implies(z3.Not(exists), none_sat))
        st.assume(z3.Implies(exists, z3.substitute(z3.And(typing, ff), (xv, h.at(l, k)))))
        hit_t = z3.substitute(to_val(out), (xv, h.at(l, k)))
        hit = from_val(hit_t, self._elem_of(out)) if out.kind != 'val' else SV('val', hit_t, out.ty)
        if hit.kind == 'ref':
            st.assume(z3.Implies(exists, z3.And(hit.t >= 0, hit.t < h.alloc)))
        if strict:
            self.side_raise(st, 'StopIteration', z3.Not(exists), 'next() on exhausted generator')
            return hit
        return merge_sv(exists, hit, default if default is not None else SV_NONE)

    def gen_any_all(self, e, st: State, is_any: bool):
        target, it, ifs = self._comp_parts(e)
        l, elem = self.bound_iter(self.ev(it, st), st)
        h = st.h
        xv = z3.Const('x!aa%d' % self.uid(), Val)
        x_sv = from_val(xv, elem)
        typing = tag_pred(xv, elem) if (elem is not None and not elem.opt and elem.kind != 'val') else z3.BoolVal(True)
        vals, facts = self.eval_with_binding(target, x_sv, list(ifs) + [e.elt], st, bound=xv, guard=z3.And(typing, h.bag(l, xv) > 0))
        cond = z3.And(*[self.truthy(v, st) for v in vals[:-1]]) if ifs else z3.BoolVal(True)
        body = self.truthy(vals[-1], st)
        if facts:
            st.assume(z3.ForAll([xv], z3.Implies(z3.And(typing, h.bag(l, xv) > 0), z3.And(*facts)), patterns=[h.bag(l, xv)]))
        ff = z3.BoolVal(True)
        dom = z3.And(typing, ff, h.bag(l, xv) > 0, cond)
        if is_any:
            # any <=> exists; encoded with a witness so that both directions are usable
            w = self.fresh(Val, 'anyw')
            r = self.fresh(z3.BoolSort(), 'any')
            st.assume(z3.Implies(r, z3.substitute(z3.And(dom, body), (xv, w))))
            st.assume(z3.Implies(z3.Not(r), z3.ForAll([xv], z3.Implies(dom, z3.Not(body)), patterns=[h.bag(l, xv)])))
            return sv_bool(r)
        w = self.fresh(Val, 'allw')
        r = self.fresh(z3.BoolSort(), 'all')
        st.assume(z3.Implies(z3.Not(r), z3.substitute(z3.And(dom, z3.Not(body)), (xv, w))))
        st.assume(z3.Implies(r, z3.ForAll([xv], z3.Implies(dom, body), patterns=[h.bag(l, xv)])))
        return sv_bool(r)

    _uid = 0

    def uid(self):
        ExprMixin._uid += 1
        return ExprMixin._uid
