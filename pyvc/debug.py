"""debug: python3-vt -m pyvc.debug <fn-substring> <obligation-substring>  — split the goal into conjuncts and report each"""
import sys, z3, time
from pyvc.dev import build_registry
from pyvc.verify import verify_function
from pyvc.solve import to_smt2, _z3_check
from pyvc.state import Obligation

def conjuncts(g):
    if z3.is_quantifier(g) and g.is_forall():
        body = g.body()
        n = g.num_vars()
        vs = [z3.Const(g.var_name(i), g.var_sort(i)) for i in range(n)]
        body = z3.substitute_vars(body, *reversed(vs))
        if z3.is_implies(body) and z3.is_and(body.arg(1)):
            return [z3.ForAll(vs, z3.Implies(body.arg(0), cj)) for cj in conjuncts(body.arg(1))]
        if z3.is_and(body):
            return [z3.ForAll(vs, cj) for cj in conjuncts(body)]
        return [g]
    if z3.is_and(g):
        out = []
        for c in g.children():
            out.extend(conjuncts(c))
        return out
    return [g]

if __name__ == '__main__':
    reg = build_registry()
    fn, pat = sys.argv[1], sys.argv[2]
    for key, c in reg.contracts.items():
        if fn in key and not c.trusted:
            rep = verify_function(reg, c)
            print(key, rep.unsupported or rep.error or '%d obligations' % len(rep.obligations))
            for ob in rep.obligations:
                if pat in ob.name:
                    v0, _ = _z3_check(to_smt2(ob), 10000, mbqi=False)
                    if v0 == 'unsat':
                        continue
                    cs = conjuncts(ob.goal)
                    print(ob.name, len(ob.hyps), 'hyps', len(cs), 'conjuncts')
                    for i, g in enumerate(cs):
                        t = time.time()
                        v, note = _z3_check(to_smt2(Obligation(ob.name, ob.hyps, g, ob.kind, ob.fn)), 10000, mbqi=False)
                        print('  [%d] %s %.1fs %s' % (i, v, time.time() - t, str(g)[:160].replace('\n', ' ')))
                    if len(sys.argv) > 3 and sys.argv[3] == 'hyps':
                        for hh in ob.hyps:
                            if z3.is_quantifier(hh) and len(sys.argv) > 4:
                                continue
                            print('   H:', ' '.join(str(hh).split())[:int(sys.argv[5]) if len(sys.argv) > 5 else 300])
                        sys.exit(0)
