"""dev runner: python3-vt -m pyvc.dev <contract-key-substring> [...]"""
import sys, time, importlib
from pyvc.contract import Registry
from pyvc.verify import verify_function
from pyvc.solve import solve_all_split as solve_all

def build_registry():
    reg = Registry()
    from contracts import graph_spec
    graph_spec.install_schema(reg)
    import contracts
    import pkgutil
    for m in sorted(pkgutil.iter_modules(contracts.__path__), key=lambda m: m.name):
        if m.name.startswith('c_'):
            importlib.import_module('contracts.' + m.name).install(reg)
    return reg

if __name__ == '__main__':
    reg = build_registry()
    pats = sys.argv[1:]
    timeout = 10
    from pyvc.state import Obligation
    for (lname, lprops, lfn) in reg.lemmas:
        if pats and not any(p in 'lemma:' + lname for p in pats):
            continue
        obs = [Obligation('lemma:%s/%s' % (lname, sub), hyps, goal, 'lemma', lname) for (sub, hyps, goal) in lfn(reg)]
        res = solve_all(obs, timeout_s=timeout)
        print('lemma:%s: %d obligations, %d discharged' % (lname, len(res), sum(v[0] == 'unsat' for v in res.values())))
        for k, v in sorted(res.items()):
            if v[0] != 'unsat':
                print('   ', v[0].upper(), k, v[1], v[2], v[3][:200])
    for key, c in reg.contracts.items():
        if c.trusted or (pats and not any(p in key for p in pats)):
            continue
        t0 = time.time()
        rep = verify_function(reg, c)
        if rep.error:
            print('ERROR', key, rep.error); continue
        if rep.unsupported:
            print('UNSUPPORTED', key, rep.unsupported); continue
        res = solve_all(rep.obligations, timeout_s=timeout)
        kinds = {o.name: o.kind for o in rep.obligations}
        vac = [k for k, v in res.items() if kinds[k] == 'canary' and v[0] == 'unsat']
        for k in vac:
            if '/callcanary.' not in k and '/deadbranch@' not in k: print('    VACUOUS', k)
        for k in sorted(vac):
            if '/deadbranch@' in k: print('    DEAD-BRANCH', k.split('/deadbranch@')[1])
        for k in vac:
            if '/callcanary.after@' in k and k.replace('/callcanary.after@', '/callcanary.before@') not in vac:
                print('    CALL-VACUOUS', k, '(the assumed contract is contradictory at this call)')
        res = {k: v for k, v in res.items() if kinds[k] != 'canary'}
        bad = {k: v for k, v in res.items() if v[0] != 'unsat'}
        print('%s: %d obligations, %d discharged, paths=%d, %.1fs' % (key, len(res), len(res) - len(bad), rep.paths, time.time() - t0))
        for k, v in sorted(bad.items()):
            print('   ', v[0].upper(), k.split('/', 1)[1], v[1], v[2], v[3][:300])
        for k, v in sorted(res.items()):
            if v[0] == 'unsat' and (v[1] != 'z3-ematching' or v[2] > 5):
                print('    slow/fallback:', k.split('/', 1)[1], v[1], v[2])
