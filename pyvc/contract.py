"""pyvc.contract — sidecar contracts (data keyed by module:qualname; loops keyed by ordinal in source order)."""
from __future__ import annotations
import z3
from .theory import *


class CCtx:
    """What a contract clause sees.  old = pre-state heap, h = post-state heap (== old inside `requires`),
    args by name (z3 terms via attribute access, SV via .sv(name)), result, ghosts."""

    def __init__(self, old: H, h: H, args: dict, ghosts: dict, result: SV | None = None, extra=None):
        self.old, self.h, self.args, self.ghosts, self.result, self.extra = old, h, args, ghosts, result, extra or {}

    def sv(self, name) -> SV:
        return self.args[name]

    def __getattr__(self, name):
        d = object.__getattribute__(self, 'args')
        if name in d:
            v = d[name]
            if v.kind == 'none':
                return VNone
            if v.kind == 'tuple':
                return v
            return v.t
        g = object.__getattribute__(self, 'ghosts')
        if name in g:
            return g[name]
        raise AttributeError(name)

    @property
    def res(self):
        r = self.result
        if r is None or r.kind == 'none':
            return VNone
        return r.t


class LCtx(CCtx):
    """loop-invariant context: adds hl (heap at loop entry), i (index), done (bag of processed elements), it (iterated
    container address), locals (name -> SV), outer (enclosing loop's LCtx)."""

    def __init__(self, old, h, args, ghosts, hl, i, done, it, locals_, outer=None, extra=None):
        super().__init__(old, h, args, ghosts, None, extra)
        self.hl, self.i, self.done, self.it, self.locals, self.outer = hl, i, done, it, locals_, outer

    def local(self, name) -> SV:
        if name not in self.locals:
            raise Unsupported('contract refers to local %r which the source does not define here' % name)
        return self.locals[name]

    def lt(self, name):
        return self.local(name).t

    def ret(self) -> SV:
        """the local variable returned by the function's final `return <name>`"""
        n = self.extra.get('ret_name')
        if n is None or n not in self.locals:
            raise Unsupported('function does not end in `return <local>`')
        return self.locals[n]


class LoopSpec:
    def __init__(self, inv=None, stable_iter=True, variant=None, locals_ty=None, note='', iter_src=None, term_unverified=False,
                 forget_history=False):
        """inv(c: LCtx) -> list[(name, formula)];  stable_iter: the iterated container is not modified by the body
        (checked as part of the invariant; licenses done == bag at exit); variant(c) for while loops;
        locals_ty: {name: T} static hints for locals first assigned in the loop."""
        self.inv = inv or (lambda c: [])
        self.stable_iter, self.variant, self.locals_ty, self.note = stable_iter, variant, locals_ty or {}, note
        self.forget_history = forget_history     # the invariant is self-sufficient: at the loop head, hypotheses about heap versions
                                                 # older than the head (everything but the pre-state) are dropped (sound: fewer hypotheses)
        self.term_unverified = term_unverified    # while loop whose termination is NOT proved (listed as an unchecked assumption)
        self.iter_src = iter_src      # expected source text of the iterated expression: a loop that iterates something else is a
                                      # shape mismatch (undecided), never checked against the wrong invariant


class Contract:
    def __init__(self, key, params, returns=None, ghosts=None, requires=None, ensures=None, modifies=(),
                 allocates=False, raises=None, loops=None, decreases=None, pure=False, trusted=False, props=(),
                 locals_ty=None, call_ghosts=None, lemmas=None, is_property=False, note='', exc_modifies=None,
                 inline=False, call_lemmas=None, term_rel=None, may_raise=(), no_merge=False, defs=None, param_defaults=None, solver_budget=None,
                 recv_class=None, deepcopy_of=None):
        """key 'module:qualname'.  params: ordered dict name -> T.  ghosts: name -> z3 sort (universally quantified).
        requires/ensures: c -> list[(name, formula)].  raises: {ExcName: (cond(c over pre-state) , ensures_exc(c) or None)}
        — the function raises ExcName iff cond.  modifies: array names the function may write (coarse frame; the fine
        frame goes into ensures).  trusted=True: assumed contract on a dependency (never verified, listed in evidence)."""
        self.key = key
        self.params = dict(params)
        self.returns = returns
        self.ghosts = dict(ghosts or {})
        self.requires = requires or (lambda c: [])
        self.ensures = ensures or (lambda c: [])
        self.modifies = tuple(modifies)
        self.allocates = allocates
        self.raises = dict(raises or {})
        self.loops = dict(loops or {})
        self.decreases = decreases
        self.pure = pure
        self.trusted = trusted
        self.props = tuple(props)
        self.locals_ty = dict(locals_ty or {})
        self.call_ghosts = call_ghosts or {}
        self.lemmas = lemmas or (lambda c: [])
        self.is_property = is_property
        self.note = note
        self.inline = inline
        self.call_lemmas = dict(call_lemmas or {})
        self.defs = defs or (lambda c: [])   # definitional axioms of spec function symbols (conservative extensions): assumed, never proved
        self.param_defaults = dict(param_defaults or {})   # declared default values of parameters (callers that omit the argument rely on them)
        self.solver_budget = solver_budget   # seconds per solver attempt for this function's obligations (a known slow proof), else the tier default
        self.recv_class = dict(recv_class or {})   # attribute -> class: receiver of a store through an untyped value (the class is an OBLIGATION at the store)
        self.deepcopy_of = dict(deepcopy_of or {})  # source text of the argument of copy.deepcopy -> key of the assumed contract to use there
        self.no_merge = no_merge             # keep paths separate at joins (one obligation per path: smaller queries)
        self.may_raise = tuple(may_raise)    # exception classes whose absence is NOT proved here (left to the bounded floor; listed in evidence)
        self.term_rel = term_rel     # (ctx at recursive call, ctx at entry) -> formula: well-founded decrease (T6)

    @property
    def mod(self): return self.key.split(':')[0]
    @property
    def qualname(self): return self.key.split(':')[1]
    @property
    def short(self): return self.qualname.split('.')[-1]


class ClassInfo:
    def __init__(self, name, mod=None, dataclass=False, fields=None, init=None, tuple_fields=None):
        self.name, self.mod, self.dataclass, self.fields, self.init = name, mod, dataclass, fields or [], init
        self.getattr_hook = None     # (ex, st, obj SV, name SV) -> SV : getattr(obj, <symbolic name>) for library objects
        self.tuple_fields = tuple_fields       # heap model of an immutable tuple stored in a container: field names in order
        self.class_name_field = None           # field holding type(x).__name__ for library-generated classes (PJS)


class Registry:
    def __init__(self):
        self.schema = Schema()
        self.contracts: dict[str, Contract] = {}
        self.classes: dict[str, ClassInfo] = {}
        self.by_method: dict[tuple, Contract] = {}     # (ClassName, method) -> Contract
        self.by_func: dict[str, Contract] = {}         # bare function name -> Contract (module level)
        self.exceptions = {'ValueError', 'LookupError', 'KeyError', 'IndexError', 'TypeError', 'AttributeError',
                           'StopIteration', 'AssertionError', 'RecursionError', 'Exception', 'RuntimeError',
                           'FileNotFoundError', 'NotImplementedError'}
        self.exc_parents = {'KeyError': 'LookupError', 'IndexError': 'LookupError'}
        self.class_consts = {}     # ClassName -> {ATTR: SV}  class-level constants (e.g. Token.EOF)
        self.lemmas = []          # (name, props, fn(reg) -> list[(subname, hyps, goal)])  pure-logic lemmas over contracts

    def add(self, c: Contract):
        self.contracts[c.key] = c
        q = c.qualname.split('.')
        if len(q) == 2:
            self.by_method[(q[0], q[1])] = c
        elif len(q) == 1:
            self.by_func[q[0]] = c
        return c

    def add_lemma(self, name, props, fn):
        self.lemmas.append((name, tuple(props), fn))

    def add_exception(self, name, parent='Exception'):
        self.exceptions.add(name)
        self.exc_parents[name] = parent

    def exc_is_a(self, name, handler):
        while name is not None:
            if name == handler:
                return True
            name = self.exc_parents.get(name, 'Exception' if name != 'Exception' else None)
        return False

    def method(self, cls, name):
        return self.by_method.get((cls, name))
