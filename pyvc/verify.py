"""pyvc.verify — generate the proof obligations of one function from its real source and its sidecar contract."""
from __future__ import annotations
import ast, traceback
import z3
from .theory import *
from .state import *
from .contract import *
from .symexec import Exec
from .state import heap_closed
from . import extract


class FnReport:
    def __init__(self, key):
        self.key = key
        self.source = None
        self.obligations: list[Obligation] = []
        self.unsupported: str | None = None
        self.error: str | None = None
        self.paths = 0
        self.called = set()


def entry_state(ex: Exec, c: Contract, fnnode) -> State:
    reg = ex.reg
    h0 = H.fresh(reg.schema, 'pre')
    st = State(h0)
    st.assume(h0.alloc >= 0)
    argnames = [a.arg for a in fnnode.args.posonlyargs + fnnode.args.args + fnnode.args.kwonlyargs]
    if fnnode.args.vararg or fnnode.args.kwarg:
        raise Unsupported('*args/**kwargs')
    if list(c.params) != argnames:
        raise Unsupported('signature changed: contract has %s, source has %s' % (list(c.params), argnames))
    for n in argnames:
        ty = c.params[n]
        if ty.kind == 'cls':
            st.locals[n] = SV('cls', py=ty.cls)
            continue
        t = z3.Const('arg_' + n, ty.sort)
        sv = from_sort(t, ty)
        if sv.kind == 'ref':
            st.assume(z3.And(t >= 0, t < h0.alloc))
            if ty.kind == 'obj' and ty.cls:
                st.assume(h0.cls(t) == class_id(ty.cls))
            elif ty.kind == 'list':
                st.assume(h0.cls(t) == CLS_LIST)
            elif ty.kind == 'dict':
                st.assume(h0.cls(t) == CLS_DICT)
        elif sv.kind == 'val' and ty.kind != 'val':
            st.assume(tag_pred(t, ty))
            if ty.kind in ('obj', 'list', 'dict'):
                st.assume(z3.Implies(is_VRef(t), z3.And(v_a(t) >= 0, v_a(t) < h0.alloc)))
        st.locals[n] = sv
    ex.args = {n: st.locals[n] for n in argnames}
    ex.ghosts = {g: z3.Const('ghost_' + g, s) for g, s in c.ghosts.items()}
    for g, t in ex.ghosts.items():
        if t.sort() == Addr:
            st.assume(z3.And(t >= 0, t < h0.alloc))
    ex.h0 = h0
    for f in heap_closed(h0) + list_axioms(h0):
        st.assume(f)
    pre = CCtx(h0, h0, ex.args, ex.ghosts)
    for f in c.defs(pre):
        st.assume(f)
    for (nm, f) in c.requires(pre):
        st.assume(f)
    return st


def verify_function(reg: Registry, c: Contract) -> FnReport:
    rep = FnReport(c.key)
    try:
        fs = extract.find_function(c.mod, c.qualname)
    except LookupError as e:
        rep.error = 'missing function: %s' % e
        return rep
    rep.source = fs.describe()
    n_loops = extract.count_loops(fs.node)
    ex = Exec(reg, c, fs)
    try:
        if c.loops and max(c.loops) >= n_loops and not all(l.iter_src is not None for l in c.loops.values()):
            raise Unsupported('contract names loop %d but the source has %d loops' % (max(c.loops), n_loops))
        st = entry_state(ex, c, fs.node)
        if c.param_defaults:
            import ast as _ast
            a_ = fs.node.args
            pos = a_.posonlyargs + a_.args
            dflt = dict(zip([x.arg for x in pos[len(pos) - len(a_.defaults):]], a_.defaults))
            dflt.update({x.arg: d for x, d in zip(a_.kwonlyargs, a_.kw_defaults) if d is not None})
            for pn, want in c.param_defaults.items():
                try:
                    got = _ast.literal_eval(dflt[pn]) if pn in dflt else '<no default>'
                except Exception:
                    got = '<not a constant>'
                same = (got == want and type(got) is type(want))
                ex.oblige('default.%s' % pn, st, z3.BoolVal(same), 'post', 'the default of parameter %s is %r in the contract, %r in the source' % (pn, want, got))
        outs = ex.exec_block(fs.node.body, st)
        for o in outs:
            ex.exits.append(Exit('return', o, value=SV_NONE))
        rep.paths = len(ex.exits)
        h0 = ex.h0
        for idx, x in enumerate(ex.exits):
            stx = x.state
            named_heap(stx)
            # vacuity canary: the path condition of every exit must be satisfiable (this goal must NOT be provable)
            if x.kind == 'return':
                ex.obligations.append(Obligation(fs.key + '/canary@exit%d' % idx, list(stx.pc), z3.BoolVal(False), 'canary', fs.key))
            if x.kind == 'return':
                res = x.value
                if c.returns is not None and c.returns.kind not in ('none', 'tuple'):
                    from .calls import adapt
                    res = adapt(ex, res, c.returns, stx, 'return value')
                if c.returns is not None and c.returns.kind == 'tuple' and (res.kind != 'tuple' or len(res.elts) != len(c.returns.elts or [])):
                    raise Unsupported('an exit returns %s where the contract declares a %d-tuple' % (res.kind, len(c.returns.elts or [])))
                post = CCtx(h0, stx.h, ex.args, ex.ghosts, res)
                for (nm, f) in c.ensures(post):
                    ex.oblige('post.%s@exit%d' % (nm, idx), stx, f, 'post')
                pre = CCtx(h0, h0, ex.args, ex.ghosts)
                for exc, spec in c.raises.items():
                    cond = spec[0] if isinstance(spec, tuple) else spec
                    ex.oblige('post.noraise.%s@exit%d' % (exc, idx), stx, z3.Not(cond(pre)), 'post',
                              'normal return only when the raise condition of %s is false' % exc)
                for n in h0.arr:
                    if n == 'orig':
                        continue        # ghost origin map: changes with every allocation, at fresh addresses only
                    if n not in c.modifies and not z3.eq(stx.h.arr[n], h0.arr[n]):
                        ex.oblige('frame.%s@exit%d' % (n, idx), stx, stx.h.arr[n] == h0.arr[n], 'frame')
            else:
                spec = None
                for en, sp in c.raises.items():
                    if reg.exc_is_a(x.exc, en):
                        spec = sp
                        break
                if spec is None and any(reg.exc_is_a(x.exc, m) for m in c.may_raise):
                    continue
                if spec is None:
                    ex.oblige('noexc.%s@%s' % (x.exc, x.site), stx, z3.BoolVal(False), 'noexc',
                              'no %s may escape (%s)' % (x.exc, x.site))
                else:
                    cond, exc_ens = spec if isinstance(spec, tuple) else (spec, None)
                    pre = CCtx(h0, h0, ex.args, ex.ghosts)
                    ex.oblige('post.exc.%s.cond@%s' % (x.exc, x.site), stx, cond(pre), 'post.exc')
                    if exc_ens is not None:
                        for (nm, f) in exc_ens(CCtx(h0, stx.h, ex.args, ex.ghosts)):
                            ex.oblige('post.exc.%s.%s@%s' % (x.exc, nm, x.site), stx, f, 'post.exc')
                    else:
                        for n in h0.arr:
                            if n != 'orig' and not z3.eq(stx.h.arr[n], h0.arr[n]):
                                ex.oblige('post.exc.%s.unchanged.%s@%s' % (x.exc, n, x.site), stx,
                                          stx.h.arr[n] == h0.arr[n], 'post.exc')
        if c.solver_budget:
            for o_ in ex.obligations:
                if o_.kind != 'canary':
                    o_.budget = c.solver_budget
        rep.obligations = ex.obligations
        rep.called = set(ex.called)
    except Unsupported as e:
        rep.unsupported = str(e)
    except RecursionError:
        rep.unsupported = 'executor recursion limit'
    except Exception as e:
        rep.error = 'generator crash: %s\n%s' % (e, traceback.format_exc()[-1500:])
    return rep
