"""pyvc.symexec — forward symbolic execution of one function against its contract; VC generation."""
from __future__ import annotations
import ast
import z3
from .theory import *
from .state import *
from .contract import *
from .expr import ExprMixin
from . import extract


def conjuncts(g):
    if z3.is_quantifier(g) and g.is_forall() and g.num_patterns() > 0:
        n = g.num_vars()
        vs = [z3.Const(g.var_name(i), g.var_sort(i)) for i in range(n)]
        body = z3.substitute_vars(g.body(), *reversed(vs))
        pats = []
        for i in range(g.num_patterns()):
            p_ = g.pattern(i)
            terms = [z3.substitute_vars(p_.arg(j), *reversed(vs)) for j in range(p_.num_args())]
            pats.append(z3.MultiPattern(*terms) if len(terms) > 1 else terms[0])
        if z3.is_implies(body) and z3.is_and(body.arg(1)):
            return [z3.ForAll(vs, z3.Implies(body.arg(0), cj), patterns=pats) for cj in body.arg(1).children()]
        if z3.is_and(body):
            return [z3.ForAll(vs, cj, patterns=pats) for cj in body.children()]
        return [g]
    if z3.is_and(g):
        out = []
        for c in g.children():
            out.extend(conjuncts(c))
        return out
    return [g]


class LoopFrame:
    def __init__(self):
        self.continues: list[State] = []
        self.breaks: list[State] = []


class Exec(ExprMixin):
    BUILTINS = {'len', 'isinstance', 'int', 'float', 'str', 'bool', 'list', 'dict', 'set', 'max', 'min', 'next', 'any',
                'all', 'hasattr', 'getattr', 'setattr', 'id', 'range', 'tuple', 'print', 'sorted', 'enumerate', 'zip'}

    def __init__(self, reg: Registry, contract: Contract, fn: extract.FunctionSource):
        self.reg, self.contract, self.fn = reg, contract, fn
        self.obligations: list[Obligation] = []
        self.exits: list[Exit] = []
        self.loop_frames: list[LoopFrame] = []
        self.loop_ctx_stack: list = []
        self.loop_ordinal = 0
        self.call_ordinal = 0
        self.probing = 0
        self.module_consts: dict[str, SV] = dict(getattr(reg, 'module_consts', {}).get(contract.mod, {}))   # module-level names the contract file declares
        self.h0: H | None = None
        self.args: dict[str, SV] = {}
        self.ghosts: dict = {}
        self.try_stack: list = []
        self.axioms: list = []
        self.site_counter = 0
        self.called = set()
        # loop ordinals: pre-order (source order) numbering of for/while statements of this function
        self.loop_ids = {}
        class _V(ast.NodeVisitor):
            def visit_For(v, n):
                self.loop_ids[id(n)] = len(self.loop_ids); v.generic_visit(n)
            visit_While = visit_For
        _V().visit(fn.node)

    # ------------------------------------------------------------------ obligations and exits
    def oblige(self, name, st: State, goal, kind, note=''):
        if self.probing:
            return
        goal = as_goal(goal)
        if isinstance(goal, bool):
            goal = z3.BoolVal(goal)
        if z3.is_true(goal):
            return
        self.obligations.append(Obligation(self.fn.key + '/' + name, list(st.pc), goal, kind, self.fn.key, note))

    def side_raise(self, st: State, exc: str, cond, what=''):
        """the current operation raises `exc` when cond holds: record the exceptional exit, continue with not cond"""
        if isinstance(cond, bool):
            cond = z3.BoolVal(cond)
        cond = z3.simplify(cond)
        if z3.is_false(cond):
            return
        self.site_counter += 1
        ex = st.fork()
        ex.assume(cond)
        self.raise_exit(ex, exc, '%s#%d' % (what, self.site_counter))
        st.assume(z3.Not(cond))

    def raise_exit(self, st: State, exc: str, site=''):
        # innermost enclosing try with a matching handler catches it
        for i in range(len(self.try_stack) - 1, -1, -1):
            fr = self.try_stack[i]
            for (hname, lst) in fr:
                if self.reg.exc_is_a(exc, hname):
                    lst.append(st)
                    return
        self.exits.append(Exit('raise', st, exc=exc, site=site))

    # ------------------------------------------------------------------ statements
    def exec_block(self, stmts, st: State) -> list[State]:
        states = [st]
        for s in stmts:
            nxt = []
            for x in states:
                nxt.extend(self.exec_stmt(s, x))
            states = nxt
            if not states:
                break
        return states

    def exec_stmt(self, s, st: State) -> list[State]:
        m = getattr(self, 'st_' + type(s).__name__, None)
        if m is None:
            raise Unsupported('statement ' + type(s).__name__)
        return m(s, st)

    def st_Pass(self, s, st): return [st]

    def st_Expr(self, s, st):
        self.ev(s.value, st)
        return [st]

    def st_Return(self, s, st):
        v = self.ev(s.value, st) if s.value is not None else SV_NONE
        self.exits.append(Exit('return', st, value=v))
        return []

    def st_Raise(self, s, st):
        if s.exc is None:
            raise Unsupported('bare raise')
        e = s.exc
        name = None
        if isinstance(e, ast.Call) and isinstance(e.func, ast.Name):
            name = e.func.id
        elif isinstance(e, ast.Name):
            name = e.id
        if name is None or name not in self.reg.exceptions:
            raise Unsupported('raise of ' + ast.unparse(e)[:40])
        self.raise_exit(st, name, 'raise')
        return []

    def st_Assert(self, s, st):
        c = self.truthy(self.ev(s.test, st), st)
        self.side_raise(st, 'AssertionError', z3.Not(c), 'assert')
        return [st]

    def st_Continue(self, s, st):
        self.loop_frames[-1].continues.append(st)
        return []

    def st_Break(self, s, st):
        self.loop_frames[-1].breaks.append(st)
        return []

    def st_Assign(self, s, st):
        v = self.ev(s.value, st)
        for t in s.targets:
            self.assign(t, v, st)
        return [st]

    def st_AnnAssign(self, s, st):
        if s.value is not None:
            v = self.ev(s.value, st)
            # use the annotation as a static hint for empty containers
            self.assign(s.target, v, st)
        return [st]

    def st_AugAssign(self, s, st):
        cur = self.ev(ast.copy_location(ast.BinOp(left=self._as_load(s.target), op=s.op, right=s.value), s), st)
        self.assign(s.target, cur, st)
        return [st]

    def _as_load(self, t):
        import copy
        t2 = copy.deepcopy(t)
        for n in ast.walk(t2):
            if hasattr(n, 'ctx'):
                n.ctx = ast.Load()
        return t2

    def st_Delete(self, s, st):
        for t in s.targets:
            if isinstance(t, ast.Subscript):
                o = self.ev(t.value, st)
                k = self.ev(t.slice, st)
                if o.kind == 'ref' and o.cls == 'dict':
                    self.dict_del(o.t, k, st)
                    continue
            raise Unsupported('del ' + ast.unparse(t)[:30])
        return [st]

    def bind_target(self, t, v: SV, st: State):
        self.assign(t, v, st)

    def assign(self, t, v: SV, st: State):
        if isinstance(t, ast.Name):
            hint = self.contract.locals_ty.get(t.id)
            if hint is not None and v.kind == 'ref' and v.ty is not None and v.ty.kind == hint.kind and v.ty.elem is None:
                v = SV('ref', v.t, hint)
            if v.kind in ('ref', 'val', 'int', 'str', 'real'):
                v = st.name_sv(v)
            st.locals[t.id] = v
            return
        if isinstance(t, (ast.Tuple, ast.List)):
            if v.kind == 'ref' and v.cls in self.reg.classes and getattr(self.reg.classes[v.cls], 'tuple_fields', None):
                flds = self.reg.classes[v.cls].tuple_fields
                if len(flds) != len(t.elts):
                    raise Unsupported('tuple arity')
                v = sv_tuple([self.get_attr(v, f, st) for f in flds])
            if v.kind != 'tuple' or len(v.elts) != len(t.elts):
                raise Unsupported('unpacking of non-static tuple')
            for x, y in zip(t.elts, v.elts):
                self.assign(x, y, st)
            return
        if isinstance(t, ast.Attribute):
            o = self.ev(t.value, st)
            self.set_attr(o, t.attr, v, st)
            return
        if isinstance(t, ast.Subscript):
            o = self.ev(t.value, st)
            k = self.ev(t.slice, st)
            if o.kind == 'val' and o.ty is not None and o.ty.kind == 'dict':
                o = sv_ref(self.as_ref(o, st, 'subscript store'), Dict(o.ty.key, o.ty.elem))
            if o.kind == 'val' and (o.ty is None or o.ty.kind == 'val'):
                # dynamically typed container: must be a dict (anything else: TypeError exit)
                self.side_raise(st, 'TypeError', z3.Not(z3.And(is_VRef(o.t), st.h.cls(v_a(o.t)) == CLS_DICT)), 'subscript store on non-dict')
                o = sv_ref(v_a(o.t), Dict(None, None))
            if o.kind == 'ref' and o.cls == 'dict':
                et = o.ty.elem if o.ty is not None else None
                self.dict_set(o.t, k, v, st, own=(et is not None and et.kind in ('list', 'dict', 'set')))
                return
            raise Unsupported('subscript store on %s/%s' % (o.kind, o.cls))
        raise Unsupported('assignment target ' + type(t).__name__)

    def set_attr(self, o: SV, attr: str, v: SV, st: State):
        cls = o.cls if o.kind == 'ref' else (o.ty.cls if o.ty is not None else None)
        a = self.as_ref(o, st, 'store .' + attr)
        if cls is None and o.kind == 'val' and attr in self.contract.recv_class:
            # receiver without static class (e.g. memo[id(x)].f = ...): its class is proved here, not assumed
            cls = self.contract.recv_class[attr]
            fact = z3.And(is_VRef(o.t), a >= 0, a < st.h.alloc, st.h.cls(a) == class_id(cls))
            self.oblige('type.receiver.%s#%d' % (attr, self._next_site()), st, fact, 'type',
                        'the object receiving .%s is a %s' % (attr, cls))
            st.assume(fact)
        ty = self.reg.schema.attr_type(cls, attr)
        if ty is None:
            raise Unsupported('attribute %s of %s not in schema' % (attr, cls))
        term, side = coerce(v, ty)
        if side is not None:
            self.oblige('type.%s#%d' % (attr, self._next_site()), st, side, 'type',
                        'value stored into .%s conforms to its declared type %r' % (attr, ty))
            st.assume(side)
        sa = self.reg.schema.storage(cls, attr)
        st.set_arr('f_' + sa, z3.Store(st.h.arr['f_' + sa], a, term))
        if (cls, attr) in self.reg.schema.presence:
            g = self.reg.schema.presence[(cls, attr)]
            st.set_arr('f_' + g, z3.Store(st.h.arr['f_' + g], a, z3.BoolVal(True)))
        if ty.kind in ('list', 'dict', 'set') and v.kind == 'ref':
            st.set_arr('own_obj', z3.Store(st.h.arr['own_obj'], v.t, a))
            st.set_arr('own_fld', z3.Store(st.h.arr['own_fld'], v.t, z3.IntVal(field_id(attr))))

    def _next_site(self):
        self.site_counter += 1
        return self.site_counter

    # ------------------------------------------------------------------ if / match
    def branch(self, c, st: State, then_fn, else_fn) -> list[State]:
        c = z3.simplify(c)
        if z3.is_true(c):
            return then_fn(st)
        if z3.is_false(c):
            return else_fn(st)
        n = len(st.pc)
        sa = st.fork(); sa.assume(c)
        sb = st.fork(); sb.assume(z3.Not(c))
        ra = then_fn(sa)
        rb = else_fn(sb)
        import os
        if not os.environ.get('PYVC_NOMERGE') and not self.contract.no_merge and len(ra) == 1 and len(rb) == 1 and len(ra[0].pc) > n and len(rb[0].pc) > n \
                and z3.eq(ra[0].pc[n], c) and z3.eq(rb[0].pc[n], z3.Not(c)):
            try:
                return [merge_states(n, c, ra[0], rb[0])]
            except Unsupported:
                return ra + rb
        return ra + rb

    def st_If(self, s, st):
        c = self.truthy(self.ev(s.test, st), st)
        import os
        if os.environ.get('PYVC_BRANCH_CANARY') and not self.probing:
            # developer diagnostic: which branches are unreachable under the contract + the engine's typing assumptions?
            # (a branch that is dead although the code can take it points at a contradictory assumption: vacuous proofs)
            for lab, cond in (('then', c), ('else', z3.Not(c))):
                self.obligations.append(Obligation('%s/deadbranch@L%d.%s#%d' % (self.fn.key, s.lineno, lab, self._next_site()),
                                                   list(st.pc) + [cond], z3.BoolVal(False), 'canary', self.fn.key))
        return self.branch(c, st, lambda x: self.exec_block(s.body, x), lambda x: self.exec_block(s.orelse, x))

    def st_Match(self, s, st):
        subj = self.ev(s.subject, st)

        def pat_cond(p, stx):
            if isinstance(p, ast.MatchValue):
                return self.eq(subj, self.ev(p.value, stx), stx)
            if isinstance(p, ast.MatchSingleton):
                return self.eq(subj, self.ev(ast.Constant(p.value), stx), stx)
            if isinstance(p, ast.MatchOr):
                return z3.Or(*[pat_cond(q, stx) for q in p.patterns])
            if isinstance(p, ast.MatchAs) and p.pattern is None and p.name is None:
                return z3.BoolVal(True)
            raise Unsupported('match pattern ' + type(p).__name__)

        def go(cases, stx):
            if not cases:
                return [stx]
            case = cases[0]
            if case.guard is not None:
                raise Unsupported('match guard')
            c = pat_cond(case.pattern, stx)
            return self.branch(c, stx, lambda x: self.exec_block(case.body, x), lambda x: go(cases[1:], x))
        return go(list(s.cases), st)

    # ------------------------------------------------------------------ try
    def st_Try(self, s, st):
        if s.orelse:
            raise Unsupported('try/else')
        if s.finalbody:
            # try ... finally: the final block runs on every way out of the body (fall-through, return, raise)
            inner = ast.Try(body=s.body, handlers=s.handlers, orelse=[], finalbody=[]) if s.handlers else None
            n0 = len(self.exits)
            outs = self.st_Try(inner, st) if inner is not None else self.exec_block(s.body, st)
            new_exits = self.exits[n0:]
            del self.exits[n0:]
            res = []
            for o in outs:
                res.extend(self.exec_block(s.finalbody, o))
            for x in new_exits:
                for o in self.exec_block(s.finalbody, x.state):
                    self.exits.append(Exit(x.kind, o, value=x.value, exc=x.exc, site=x.site))
            return res
        frame = []
        for hd in s.handlers:
            if hd.type is None or not isinstance(hd.type, ast.Name):
                raise Unsupported('except without a single class')
            frame.append((hd.type.id, []))
        self.try_stack.append(frame)
        try:
            out = self.exec_block(s.body, st)
        finally:
            self.try_stack.pop()
        for hd, (hname, caught) in zip(s.handlers, frame):
            for cs in caught:
                out.extend(self.exec_block(hd.body, cs))
        return out

    # ------------------------------------------------------------------ loops
    def st_For(self, s, st):
        from .loops import exec_for
        return exec_for(self, s, st)

    def st_While(self, s, st):
        from .loops import exec_while
        return exec_while(self, s, st)

    # ------------------------------------------------------------------ calls
    def ev_Call(self, e, st):
        from .calls import eval_call
        return eval_call(self, e, st)

    def call_contract(self, c: Contract, pos: list, kw: dict, st: State, site='') -> SV:
        from .calls import call_by_contract
        return call_by_contract(self, c, pos, kw, st, site)
