"""pyvc.calls — call dispatch: builtins, container methods, constructors, calls by contract (modular)."""
from __future__ import annotations
import ast
import z3
from .theory import *
from .state import *
from .contract import *
from . import extract


def eval_call(ex, e: ast.Call, st: State) -> SV:
    f = e.func
    # super().__init__(...) of a class whose base is external: no effect on the fields under contract (assumption BASE-INIT)
    if (isinstance(f, ast.Attribute) and f.attr == '__init__' and isinstance(f.value, ast.Call) and isinstance(f.value.func, ast.Name)
            and f.value.func.id == 'super' and not f.value.args):
        for a in e.args:
            ex.ev(a, st)
        return SV_NONE
    if any(isinstance(a, ast.Starred) for a in e.args) or any(k.arg is None for k in e.keywords):
        raise Unsupported('star args')
    # generator-consuming builtins must see the generator syntactically
    if isinstance(f, ast.Name) and f.id not in st.locals:
        n = f.id
        if n == 'next' and e.args and isinstance(e.args[0], ast.GeneratorExp):
            default = ex.ev(e.args[1], st) if len(e.args) > 1 else None
            return ex.gen_first(e.args[0], default, st, strict=len(e.args) == 1)
        if n == 'set' and len(e.args) == 1 and isinstance(e.args[0], ast.GeneratorExp) and not e.keywords:
            g = e.args[0]          # set(<generator>) == {<elt> for ...}
            return ex.ev_SetComp(ast.copy_location(ast.SetComp(elt=g.elt, generators=g.generators), g), st)
        if n in ('any', 'all') and e.args and isinstance(e.args[0], (ast.GeneratorExp, ast.ListComp)):
            return ex.gen_any_all(e.args[0], st, n == 'any')
        if n == 'list' and e.args and isinstance(e.args[0], (ast.GeneratorExp,)):
            lc = ast.ListComp(elt=e.args[0].elt, generators=e.args[0].generators)
            return ex.ev_ListComp(lc, st)
        if n == 'isinstance':
            return builtin_isinstance(ex, e, st)
    fv = ex.ev(f, st)
    pos = [ex.ev(a, st) for a in e.args]
    kw = {k.arg: ex.ev(k.value, st) for k in e.keywords}
    if fv.kind == 'cls':
        return construct(ex, fv.py, pos, kw, st)
    if fv.kind != 'func':
        raise Unsupported('call of non-function value')
    p = fv.py
    if isinstance(p, str):
        if p in ex.reg.by_func and p not in st.locals:
            return call_by_contract(ex, ex.reg.by_func[p], pos, kw, st, site=p)
        ex.call_arg_src = ast.unparse(e.args[0]) if e.args else ''
        return builtin(ex, p, pos, kw, st)
    if p[0] == 'bound':
        return container_method(ex, p[1], p[2], pos, kw, st)
    if p[0] == 'method':
        _, recv, cls, name = p
        c = ex.reg.method(cls, name)
        a = ex.as_ref(recv, st, '.' + name + '()')
        return call_by_contract(ex, c, [sv_ref(a, Obj(cls))] + pos, kw, st, site=cls + '.' + name)
    if len(p) == 2:      # (ClassName, method) unbound / classmethod
        c = ex.reg.method(p[0], p[1])
        return call_by_contract(ex, c, pos, kw, st, site=p[0] + '.' + p[1])
    raise Unsupported('call target')


# ---------------------------------------------------------------------------------------------------
def builtin_isinstance(ex, e, st):
    v = ex.ev(e.args[0], st)
    c = e.args[1]
    names = [x.id for x in (c.elts if isinstance(c, ast.Tuple) else [c]) if isinstance(x, ast.Name)]
    if not names:
        raise Unsupported('isinstance target')
    outs = []
    for n in names:
        if n == 'bool': outs.append(_tag(v, 'bool'))
        elif n == 'int': outs.append(z3.Or(_tag(v, 'int'), _tag(v, 'bool')))
        elif n == 'float': outs.append(_tag(v, 'real'))
        elif n == 'str': outs.append(_tag(v, 'str'))
        elif n in ('dict', 'list', 'set'):
            cid = {'dict': CLS_DICT, 'list': CLS_LIST, 'set': CLS_SET}[n]
            if v.kind == 'ref':
                outs.append(z3.BoolVal(v.cls == n) if v.cls is not None else st.h.cls(v.t) == cid)
            elif v.kind == 'val':
                if v.ty is not None and v.ty.kind in ('dict', 'list', 'set', 'obj'):
                    outs.append(z3.And(is_VRef(v.t), z3.BoolVal(v.ty.kind == n)))
                else:
                    outs.append(z3.And(is_VRef(v.t), st.h.cls(v_a(v.t)) == cid))
            else:
                outs.append(z3.BoolVal(False))
        elif n in ex.reg.classes:
            cid = class_id(n)
            if v.kind == 'ref':
                outs.append(z3.BoolVal(v.cls == n) if v.cls is not None else st.h.cls(v.t) == cid)
            elif v.kind == 'val':
                if v.ty is not None and v.ty.kind == 'obj' and v.ty.cls is not None:
                    outs.append(z3.And(is_VRef(v.t), z3.BoolVal(v.ty.cls == n)))
                else:
                    outs.append(z3.And(is_VRef(v.t), st.h.cls(v_a(v.t)) == cid))
            else:
                outs.append(z3.BoolVal(False))
        else:
            raise Unsupported('isinstance ' + n)
    return sv_bool(z3.Or(*outs) if len(outs) > 1 else outs[0])


def _tag(v: SV, kind):
    if v.kind == 'val':
        return {'bool': is_VBool, 'int': is_VInt, 'real': is_VReal, 'str': is_VStr}[kind](v.t)
    return z3.BoolVal(v.kind == kind)


def builtin(ex, name, pos, kw, st: State) -> SV:
    if name == 'len':
        v = pos[0]
        if v.kind == 'val' and v.ty is not None and v.ty.kind in ('list', 'dict'):
            v = sv_ref(ex.as_ref(v, st, 'len'), T(v.ty.kind, v.ty.cls, v.ty.elem))
        if v.kind == 'val' and (v.ty is None or v.ty.kind == 'val'):
            # dynamically typed: a list or a dict / set (anything else: TypeError exit)
            isl = z3.And(is_VRef(v.t), st.h.cls(v_a(v.t)) == CLS_LIST)
            isd = z3.And(is_VRef(v.t), z3.Or(st.h.cls(v_a(v.t)) == CLS_DICT, st.h.cls(v_a(v.t)) == CLS_SET))
            ex.side_raise(st, 'TypeError', z3.Not(z3.Or(isl, isd)), 'len() of a non-container')
            st.assume(z3.And(st.h.size(v_a(v.t)) >= 0, st.h.len(v_a(v.t)) >= 0))
            return sv_int(z3.If(isl, st.h.len(v_a(v.t)), st.h.size(v_a(v.t))))
        if v.kind == 'ref' and v.cls == 'list': return sv_int(ex.list_len(v.t, st))
        if v.kind == 'ref' and v.cls in ('dict', 'set'):
            st.assume(st.h.size(v.t) >= 0)
            return sv_int(st.h.size(v.t))
        if v.kind == 'tuple': return sv_int(len(v.elts))
        if v.kind == 'iter' and v.py[0] in ('keys', 'items', 'values'):
            return sv_int(st.h.size(v.py[1].t))
        raise Unsupported('len of %s/%s' % (v.kind, v.cls))
    if name == 'bool':
        return sv_bool(ex.truthy(pos[0], st)) if pos else sv_bool(False)
    if name == 'int':
        v = pos[0]
        if v.kind == 'int': return v
        if v.kind == 'bool': return sv_int(z3.If(v.t, 1, 0))
        if v.kind == 'str': return sv_int(py_int(v.t))
        if v.kind == 'val':
            return sv_int(z3.If(is_VInt(v.t), v_i(v.t), z3.If(is_VStr(v.t), py_int(v_s(v.t)), py_int(str_of_val(v.t)))))
        raise Unsupported('int() of ' + v.kind)
    if name == 'float':
        v = pos[0]
        if v.kind == 'real': return v
        if v.kind == 'int': return sv_real(z3.ToReal(v.t))
        if v.kind == 'str': return sv_real(real_of_str(v.t))
        if v.kind == 'val':
            return sv_real(z3.If(is_VReal(v.t), v_r(v.t), z3.If(is_VInt(v.t), z3.ToReal(v_i(v.t)), real_of_str(v_s(v.t)))))
        raise Unsupported('float() of ' + v.kind)
    if name == 'str':
        return ex.to_str(pos[0], st) if pos else sv_str('')
    if name == 'list':
        if not pos: return ex.new_list(st)
        v = pos[0]
        if v.kind == 'val' and v.ty is not None and v.ty.kind == 'list':
            v = sv_ref(ex.as_ref(v, st, 'list()'), List(v.ty.elem))
        if v.kind == 'ref' and v.cls == 'list':
            return ex.list_copy(v.t, st, v.ty.elem if v.ty else None)
        if v.kind == 'iter' and v.py[0] == 'keys':
            return dict_keys_list(ex, v.py[1], st)
        raise Unsupported('list() of %s/%s' % (v.kind, v.cls))
    if name == 'dict':
        if not pos and not kw: return ex.new_dict(st)
        if len(pos) == 1 and not kw:
            v = pos[0]
            if v.kind == 'val' and v.ty is not None and v.ty.kind == 'dict':
                v = sv_ref(ex.as_ref(v, st, 'dict()'), NonOpt(v.ty))
            if v.kind == 'ref' and v.cls == 'dict':
                return container_method(ex, v, 'copy', [], {}, st)          # dict(d): shallow copy
        raise Unsupported('dict(...)')
    if name == 'set':
        if not pos and not kw:
            a = st.alloc_addr(CLS_SET)
            st.set_arr('D_has', z3.Store(st.h.arr['D_has'], a, EMPTY_HAS))
            st.set_arr('D_size', z3.Store(st.h.arr['D_size'], a, z3.IntVal(0)))
            return sv_ref(a, T('set', cls='set'))
        raise Unsupported('set(...)')
    if name in ('max', 'min'):
        if len(pos) == 2:
            ka, ta = ex.as_num(pos[0], st)
            kb, tb = ex.as_num(pos[1], st)
            if ka != kb:
                ta = z3.ToReal(ta) if ka == 'int' else ta
                tb = z3.ToReal(tb) if kb == 'int' else tb
                ka = 'real'
            return SV(ka, z3.If(ta >= tb, ta, tb) if name == 'max' else z3.If(ta <= tb, ta, tb))
        raise Unsupported(name + ' arity')
    if name == 'hasattr':
        o, a = pos
        lit = ex.const_str(a)
        cls = o.cls if o.kind == 'ref' else None
        if lit is not None and cls is not None and (cls, lit) in ex.reg.schema.presence:
            # dynamically added attribute of a library object: presence is a ghost boolean field
            return sv_bool(st.h.f(ex.reg.schema.presence[(cls, lit)], o.t))
        if lit is not None and cls is not None and cls in ex.reg.schema.classes:
            # declared attribute of a schema class (PJS: declared properties are always present)
            return sv_bool(lit in ex.reg.schema.classes[cls])
        raise Unsupported('hasattr')
    if name == 'getattr':
        o, a = pos[0], pos[1]
        lit = ex.const_str(a)
        if lit is not None:
            return ex.get_attr(o, lit, st)
        cls = o.cls if o.kind == 'ref' else (o.ty.cls if o.ty is not None else None)
        info = ex.reg.classes.get(cls)
        if info is not None and getattr(info, 'getattr_hook', None) is not None and a.kind == 'str':
            return info.getattr_hook(ex, st, o, a)
        raise Unsupported('getattr with a symbolic name on %s' % cls)
    if name == 'id':
        v = pos[0]
        if v.kind == 'ref':
            return SV('val', VRef(v.t), T('val'), py='id')       # id(x) modelled as the address itself
        raise Unsupported('id of non-reference')
    if name == 'print':
        return SV_NONE
    if name in ('os.path.dirname', 'os.path.basename', 'os.path.abspath', 'os.path.normpath'):
        fn = z3.Function(name.replace('.', '_'), Str, Str)
        return SV('str', fn(ex.to_str(pos[0], st).t if pos[0].kind != 'str' else pos[0].t))
    if name == 'os.path.isabs':
        fn = z3.Function('os_path_isabs', Str, z3.BoolSort())
        return sv_bool(fn(pos[0].t if pos[0].kind == 'str' else ex.to_str(pos[0], st).t))
    if name == 'os.path.join':
        fn = z3.Function('os_path_join', Str, Str, Str)
        t = pos[0].t if pos[0].kind == 'str' else ex._must_str(pos[0], st).t
        for q in pos[1:]:
            t = fn(t, q.t if q.kind == 'str' else ex._must_str(q, st).t)
        return SV('str', t)
    if name == 'copy.deepcopy':
        arg = pos[0] if pos else None
        if arg is not None and arg.kind == 'ref' and arg.ty is not None and arg.ty.kind in ('list', 'dict') \
                and arg.ty.elem is not None and arg.ty.elem.kind == 'obj':
            # a container of objects: items are copied through their own __deepcopy__ / the memo (separate assumed contracts)
            c = ex.reg.by_func.get(ex.contract.deepcopy_of.get(getattr(ex, 'call_arg_src', ''), 'deepcopy_refs'))
            if c is None:
                raise Unsupported('copy.deepcopy of a container of objects without assumed contract')
            r = call_by_contract(ex, c, pos, kw, st, site='copy.deepcopy')
            return sv_ref(v_a(r.t), arg.ty) if r.kind == 'val' else r
        if arg is not None and arg.kind == 'ref' and arg.ty is not None and arg.ty.kind == 'obj' and ex.reg.method(arg.ty.cls, '__deepcopy__') is not None:
            # an object with its own __deepcopy__: copy.deepcopy(x, memo) is x.__deepcopy__(memo) (which consults the memo
            # itself) followed by the library's bookkeeping on the memo (assumed contract KEEP-ALIVE)
            memo = pos[1] if len(pos) > 1 else kw.get('memo')
            ka = ex.reg.by_func.get('deepcopy_keep_alive')
            if memo is None or ka is None:
                raise Unsupported('copy.deepcopy of an object without memo / KEEP-ALIVE contract')
            r = call_by_contract(ex, ex.reg.method(arg.ty.cls, '__deepcopy__'), [arg, memo], {}, st, site='copy.deepcopy->__deepcopy__')
            call_by_contract(ex, ka, [memo], {}, st, site='copy.deepcopy keep-alive')
            return r
        c = ex.reg.by_func.get('deepcopy')
        if c is None:
            raise Unsupported('copy.deepcopy without assumed contract')
        return call_by_contract(ex, c, pos, kw, st, site='copy.deepcopy')
    if name == 'copy.copy':
        v = pos[0]
        if v.kind == 'ref' and v.cls == 'list':
            return ex.list_copy(v.t, st, v.ty.elem if v.ty else None)
    raise Unsupported('builtin ' + name)


def dict_keys_list(ex, d: SV, st: State) -> SV:
    """list(d.keys()) / list(d): fresh list of the keys in insertion order"""
    h = st.h
    r = ex.new_list(st, d.ty.key if d.ty else None)
    n = h.size(d.t)
    st.assume(n >= 0)
    B = ex.fresh(BagSort, 'keysbag')
    k = z3.Const('k!kl', Val)
    st.assume(z3.ForAll([k], z3.Select(B, k) == z3.If(h.has(d.t, k), 1, 0), patterns=[z3.Select(B, k)]))
    st.set_arr('L_len', z3.Store(st.h.arr['L_len'], r.t, n))
    st.set_arr('L_bag', z3.Store(st.h.arr['L_bag'], r.t, B))
    st.set_arr('L_at', z3.Store(st.h.arr['L_at'], r.t, z3.Select(h.arr['D_keyat'], d.t)))
    return r


def container_method(ex, recv: SV, name: str, pos, kw, st: State) -> SV:
    if recv.kind == 'ref' and recv.cls == 'list':
        l = recv.t
        if name == 'append':
            v = pos[0]
            if v.kind == 'tuple':
                v = ex.box_tuple(v, recv.ty.elem if recv.ty else None, st)
            ex.list_append(l, v, st)
            _learn_elem(ex, recv, v, st)
            return SV_NONE
        if name == 'extend':
            m = pos[0]
            if m.kind == 'val' and m.ty is not None and m.ty.kind == 'list':
                m = sv_ref(ex.as_ref(m, st, 'extend'), List(m.ty.elem))
            elif m.kind == 'val' and (m.ty is None or m.ty.kind == 'val'):
                # dynamically typed iterable: must be a list (anything else is outside the subset -> TypeError exit)
                ex.side_raise(st, 'TypeError', z3.Not(z3.And(is_VRef(m.t), st.h.cls(v_a(m.t)) == CLS_LIST)), 'extend(non-list)')
                m = sv_ref(v_a(m.t), List(None))
            if m.kind == 'ref' and m.cls == 'list':
                ex.list_extend(l, m.t, st)
                if recv.ty is not None and recv.ty.elem is None and m.ty is not None and m.ty.elem is not None:
                    _retag(ex, recv, m.ty.elem, st)
                return SV_NONE
            raise Unsupported('extend with %s/%s' % (m.kind, m.cls))
        if name == 'remove':
            ex.list_remove(l, pos[0], st)
            return SV_NONE
        if name == 'copy':
            return ex.list_copy(l, st, recv.ty.elem if recv.ty else None)
        if name == 'pop' and not pos:
            h = st.h
            n = ex.list_len(l, st)
            ex.side_raise(st, 'IndexError', n <= 0, 'pop from empty list')
            v = h.at(l, n - 1)
            st.assume(h.bag(l, v) > 0)
            st.set_arr('L_len', z3.Store(h.arr['L_len'], l, n - 1))
            st.set_arr('L_bag', z3.Store(h.arr['L_bag'], l, z3.Store(h.bagof(l), v, h.bag(l, v) - 1)))
            return ex.elem_sv(v, recv.ty.elem if recv.ty else None, st)
        if name == 'count':
            return sv_int(st.h.bag(l, to_val(pos[0])))
        raise Unsupported('list.' + name)
    if recv.kind == 'ref' and recv.cls == 'dict':
        d = recv.t
        if name == 'get':
            return ex.dict_get(recv, pos[0], st, default=(pos[1] if len(pos) > 1 else kw.get('default')), strict=False)
        if name in ('keys', 'items', 'values'):
            return SV('iter', py=(name, recv))
        if name == 'setdefault':
            k, dv = pos[0], (pos[1] if len(pos) > 1 else SV_NONE)
            had = st.h.has(d, to_val(k))
            cur = ex.dict_get(recv, k, st, default=dv, strict=False)
            sa = st.fork(); sa.assume(z3.Not(had))
            n = len(st.pc)
            et = recv.ty.elem if recv.ty is not None else None
            ex.dict_set(d, k, dv, sa, own=(et is not None and et.kind in ('list', 'dict', 'set')))
            sb = st.fork(); sb.assume(had)
            m = merge_states(n, z3.Not(had), sa, sb)
            st.h, st.pc = m.h, m.pc
            return cur
        if name == 'pop':
            v = ex.dict_get(recv, pos[0], st, default=(pos[1] if len(pos) > 1 else None), strict=len(pos) == 1)
            if len(pos) == 1:
                ex.dict_del(d, pos[0], st)
                return v
            raise Unsupported('dict.pop with default')
        if name in ('copy', 'as_dict'):      # as_dict(): python_jsonschema_objects wrapper -> plain dict (assumed: a shallow copy)
            h = st.h
            r = ex.new_dict(st, recv.ty.key if recv.ty else None, recv.ty.elem if recv.ty else None)
            for an in DICT_ARRAYS:
                st.set_arr(an, z3.Store(st.h.arr[an], r.t, z3.Select(h.arr[an], d)))
            return r
        raise Unsupported('dict.' + name)
    if recv.kind == 'ref' and recv.cls == 'set':
        if name == 'add':
            k = to_val(pos[0])
            h = st.h
            had = h.has(recv.t, k)
            st.set_arr('D_has', z3.Store(h.arr['D_has'], recv.t, z3.Store(z3.Select(h.arr['D_has'], recv.t), k, z3.BoolVal(True))))
            st.set_arr('D_size', z3.Store(h.arr['D_size'], recv.t, z3.If(had, h.size(recv.t), h.size(recv.t) + 1)))
            return SV_NONE
        if name == 'intersection' and len(pos) == 1 and pos[0].kind == 'ref' and pos[0].cls == 'set':
            h = st.h
            a = st.alloc_addr(CLS_SET)
            HAS = ex.fresh(SetVB, 'ixhas')
            n_ = ex.fresh(z3.IntSort(), 'ixsize')
            k_ = z3.Const('k!ix%d' % ex.uid(), Val)
            st.assume(z3.ForAll([k_], z3.Select(HAS, k_) == z3.And(h.has(recv.t, k_), h.has(pos[0].t, k_)), patterns=[z3.Select(HAS, k_)]))
            st.assume(z3.And(n_ >= 0, n_ <= h.size(recv.t), n_ <= h.size(pos[0].t)))
            st.set_arr('D_has', z3.Store(st.h.arr['D_has'], a, HAS))
            st.set_arr('D_size', z3.Store(st.h.arr['D_size'], a, n_))
            return sv_ref(a, T('set', cls='set', elem=recv.ty.elem if recv.ty else None))
        if name in ('discard', 'remove'):
            k = to_val(pos[0])
            h = st.h
            had = h.has(recv.t, k)
            if name == 'remove':
                ex.side_raise(st, 'KeyError', z3.Not(had), 'set.remove(x): x not in set')
            st.set_arr('D_has', z3.Store(h.arr['D_has'], recv.t, z3.Store(z3.Select(h.arr['D_has'], recv.t), k, z3.BoolVal(False))))
            st.set_arr('D_size', z3.Store(h.arr['D_size'], recv.t, z3.If(had, h.size(recv.t) - 1, h.size(recv.t))))
            return SV_NONE
        raise Unsupported('set.' + name)
    if recv.kind == 'str':
        if name in ('endswith', 'startswith'):
            fn = z3.Function('str_' + name, Str, Str, z3.BoolSort())
            a = pos[0]
            if a.kind == 'tuple':
                return sv_bool(z3.Or(*[fn(recv.t, x.t) for x in a.elts]))
            return sv_bool(fn(recv.t, a.t))
        raise Unsupported('str.' + name)
    raise Unsupported('method %s on %s/%s' % (name, recv.kind, recv.cls))


def _learn_elem(ex, recv: SV, v: SV, st: State):
    if recv.ty is not None and recv.ty.elem is None:
        el = ex._elem_of(v)
        if el is not None:
            _retag(ex, recv, el, st)


def _retag(ex, recv: SV, elem: T, st: State):
    """gradual typing of local lists: remember the element type learnt at the first append"""
    for k, x in list(st.locals.items()):
        if x.kind == 'ref' and x.t is not None and recv.t is not None and z3.eq(x.t, recv.t) and x.ty is not None and x.ty.elem is None:
            st.locals[k] = SV('ref', x.t, List(elem))


# ---------------------------------------------------------------------------------------------------
def construct(ex, cls: str, pos, kw, st: State) -> SV:
    if cls in ex.reg.exceptions:
        return SV('exc', py=cls)
    info = ex.reg.classes[cls]
    a = st.alloc_addr(class_id(cls))
    obj = sv_ref(a, Obj(cls))
    if info.dataclass:
        names = [f[0] for f in info.fields]
        given = {}
        if len(pos) > len(names):
            raise Unsupported('too many constructor args')
        for n, v in zip(names, pos):
            given[n] = v
        for k, v in kw.items():
            if k not in names:
                raise Unsupported('unknown field ' + k)
            given[k] = v
        for (n, default) in info.fields:
            if n in given:
                v = given[n]
            else:
                if default is None:
                    raise Unsupported('missing constructor argument ' + n)
                v = default(ex, st)
            ex.set_attr(obj, n, v, st)
        return obj
    init = ex.reg.method(cls, '__init__')
    if init is None:
        raise Unsupported('constructor of ' + cls)
    # fields of a fresh instance are unconstrained until __init__'s contract speaks
    call_by_contract(ex, init, [obj] + pos, kw, st, site=cls + '.__init__')
    return obj


# ---------------------------------------------------------------------------------------------------
def bind_args(ex, c: Contract, pos, kw, st: State):
    names = list(c.params)
    args = {}
    # a class-method contract: the implicit `cls` parameter is not among the positional arguments of the call
    cls_params = [n for n in names if c.params[n].kind == 'cls']
    for n in cls_params:
        args[n] = SV('cls', py=c.params[n].cls)
    pnames = [n for n in names if n not in cls_params]
    if len(pos) > len(pnames):
        raise Unsupported('too many args for ' + c.key)
    for n, v in zip(pnames, pos):
        args[n] = v
    for k, v in kw.items():
        if k not in c.params or k in args:
            raise Unsupported('bad keyword %s for %s' % (k, c.key))
        args[k] = v
    missing = [n for n in names if n not in args]
    if missing:
        fs = extract.find_function(c.mod, c.qualname) if not c.trusted else None
        defaults = {}
        if fs is not None:
            a = fs.raw.args
            pa = a.posonlyargs + a.args
            for p, d in zip(pa[len(pa) - len(a.defaults):], a.defaults):
                defaults[p.arg] = d
            for p, d in zip(a.kwonlyargs, a.kw_defaults):
                if d is not None:
                    defaults[p.arg] = d
        for n in missing:
            d = defaults.get(n)
            if d is None:
                if c.trusted and getattr(c, 'defaults', None) and n in c.defaults:
                    args[n] = c.defaults[n]
                    continue
                raise Unsupported('missing argument %s for %s' % (n, c.key))
            if isinstance(d, ast.Constant):
                args[n] = ex.ev_Constant(d, st)
            elif isinstance(d, ast.List) and not d.elts:
                # shared mutable default: a list allocated at definition time; modelled as a fresh empty list and the
                # callee contract must not write it (assumption DEFAULTS)
                args[n] = ex.new_list(st)
            else:
                raise Unsupported('default value of ' + n)
    # coerce to the declared parameter types
    out = {}
    for n in names:
        ty = c.params[n]
        v = args[n]
        if ty.kind == 'cls':
            out[n] = v
            continue
        out[n] = st.name_sv(adapt(ex, v, ty, st, 'argument %s of %s' % (n, c.short)))
    return out


def adapt(ex, v: SV, ty: T, st: State, what) -> SV:
    """view v at static type ty (contracts read parameters through their declared type)"""
    if ty is None:
        return v
    if v.kind == 'tuple':
        return v
    if ty.opt or ty.kind == 'val':
        if v.kind == 'val':
            return SV('val', v.t, ty)
        return SV('val', to_val(v), ty)
    if v.kind == 'val':
        term, side = coerce(v, ty)
        if side is not None:
            ex.oblige('type.arg#%d' % ex._next_site(), st, side, 'type', what + ' has the declared type')
            st.assume(side)
        return from_sort(term, ty)
    if v.kind == 'none':
        ex.oblige('type.arg#%d' % ex._next_site(), st, z3.BoolVal(False), 'type', what + ' is None but declared non-optional')
        return from_sort(ex.fresh(ty.sort, 'badarg'), ty)
    term, side = coerce(v, ty)
    if side is not None:
        ex.oblige('type.arg#%d' % ex._next_site(), st, side, 'type', what)
    sv = from_sort(term, ty)
    if sv.kind == 'ref' and v.kind == 'ref' and v.ty is not None and sv.ty is not None and sv.ty.elem is None:
        sv = SV('ref', sv.t, v.ty if v.ty.kind == sv.ty.kind else sv.ty)
    return sv


def call_by_contract(ex, c: Contract, pos, kw, st: State, site='') -> SV:
    if c is None:
        raise Unsupported('call to a function without contract: ' + site)
    ex.call_ordinal += 1
    k = ex.call_ordinal
    if not ex.probing:
        ex.called.add(c.key)
    args = bind_args(ex, c, pos, kw, st)
    # ghosts: same-named ghost/param of the caller, else explicit binding, else fresh (universally quantified)
    ghosts = {}
    for g, sort in c.ghosts.items():
        bind = ex.contract.call_ghosts.get((c.short, g)) or ex.contract.call_ghosts.get(g)
        if bind is not None:
            ghosts[g] = bind(ex, st, args)
        elif g in ex.ghosts:
            ghosts[g] = ex.ghosts[g]
        elif g in ex.args and ex.args[g].kind == 'ref':
            ghosts[g] = ex.args[g].t
        else:
            raise Unsupported('no binding for ghost %s of %s' % (g, c.key))
    named_heap(st)
    pre = CCtx(st.h, st.h, args, ghosts)
    for f in c.defs(pre):
        st.assume(f)
    tag = 'call%d.%s' % (k, c.short)
    for (nm, f) in c.requires(pre):
        ex.oblige('%s.pre.%s' % (tag, nm), st, f, 'call.pre', 'precondition %s of %s' % (nm, c.key))
        st.assume(f)
    # termination of recursion
    if c.key == ex.contract.key and c.term_rel is not None and not ex.probing:
        rel = c.term_rel(pre, CCtx(ex.h0, ex.h0, ex.args, ex.ghosts))
        for (nm, f) in rel:
            ex.oblige('%s.term.%s' % (tag, nm), st, f, 'term', 'recursive call decreases the well-founded measure')
    elif c.key == ex.contract.key and c.decreases is None and not ex.probing:
        ex.oblige('%s.term' % tag, st, z3.BoolVal(False), 'term', 'recursive call without a termination measure')
    if c.key == ex.contract.key and c.decreases is not None and not ex.probing:
        m_new = c.decreases(pre)
        m_old = ex.contract.decreases(CCtx(ex.h0, ex.h0, ex.args, ex.ghosts))
        ex.oblige('%s.term' % tag, st, z3.And(m_new >= 0, m_new < m_old), 'term', 'recursive call decreases the measure')
    h_before = st.h
    # exceptional exits
    for exc, spec in c.raises.items():
        cond, exc_ens = spec if isinstance(spec, tuple) else (spec, None)
        cf = cond(pre)
        cf = z3.simplify(cf) if isinstance(cf, z3.ExprRef) else z3.BoolVal(bool(cf))
        if z3.is_false(cf):
            continue
        xs = st.fork()
        xs.assume(cf)
        if exc_ens is not None:
            # exceptional post may describe a changed state
            hx = havoc(ex, xs, c)
            for (nm, f) in exc_ens(CCtx(h_before, hx, args, ghosts)):
                xs.assume(f)
        ex.raise_exit(xs, exc, tag)
        st.assume(z3.Not(cf))
    for exc in c.may_raise:
        cf = ex.fresh(z3.BoolSort(), 'mayraise')
        xs = st.fork()
        xs.assume(cf)
        havoc(ex, xs, c)
        ex.raise_exit(xs, exc, tag)
        st.assume(z3.Not(cf))
    # normal exit
    import os as _os
    call_canary = c.trusted and not ex.probing and bool(_os.environ.get('PYVC_CALL_CANARY'))
    if call_canary:
        # vacuity guard for ASSUMED contracts (thorough tier, mutation scans): the state right after the call must not be
        # refutable unless the state right before it already is (dead code) — a contradictory assumed postcondition
        # would discharge everything behind the call vacuously
        ex.obligations.append(Obligation('%s/callcanary.before@%s' % (ex.fn.key, tag), list(st.pc), z3.BoolVal(False), 'canary', ex.fn.key))
    h_after = havoc(ex, st, c)
    ret_ty = c.returns
    if ret_ty is None or ret_ty.kind == 'none':
        result = SV_NONE
    elif ret_ty.kind == 'tuple':
        result = sv_tuple([_fresh_of(ex, t, st, 'ret') for t in ret_ty.elts])
    else:
        result = _fresh_of(ex, ret_ty, st, 'ret_' + c.short)
    post = CCtx(h_before, h_after, args, ghosts, result)
    for (nm, f) in c.ensures(post):
        st.assume(f)
    if call_canary:
        ex.obligations.append(Obligation('%s/callcanary.after@%s' % (ex.fn.key, tag), list(st.pc), z3.BoolVal(False), 'canary', ex.fn.key))
    hint = ex.contract.call_lemmas.get(c.short) if hasattr(ex.contract, 'call_lemmas') else None
    if hint is not None:
        lc = CCtx(h_before, h_after, args, ghosts, result, extra={'ex': ex, 'st': st, 'caller_h0': ex.h0, 'locals': st.locals,
                                                                    'loops': list(ex.loop_ctx_stack)})
        for (nm, f) in hint(lc):
            ex.oblige('%s.lemma.%s' % (tag, nm), st, f, 'lemma')
            st.assume(f)
    return result


def _fresh_of(ex, ty: T, st: State, name) -> SV:
    t = ex.fresh(ty.sort, name)
    sv = from_sort(t, ty)
    if sv.kind == 'ref':
        ex.note_ref(sv.t, st)
    elif sv.kind == 'val' and ty.kind != 'val':
        st.assume(tag_pred(t, ty))
    return sv


def havoc(ex, st: State, c: Contract) -> H:
    h = st.h
    for n in c.modifies:
        h = h.set(n, ex.fresh(h.schema.array_sort(n[2:]) if n.startswith('f_') else BUILTIN_ARRAYS[n], n + '!h'))
    if c.allocates and 'orig' not in c.modifies:
        # the ghost origin map changes with every allocation — but only at fresh addresses (meta-invariant of `orig`)
        o_orig, al0 = h.arr['orig'], h.alloc
        h = h.set('orig', ex.fresh(BUILTIN_ARRAYS['orig'], 'orig!h'))
        x_ = z3.Const('x!og', Addr)
        st.assume(z3.ForAll([x_], z3.Implies(z3.And(x_ >= 0, x_ < al0), z3.Select(h.arr['orig'], x_) == z3.Select(o_orig, x_)),
                            patterns=[z3.Select(h.arr['orig'], x_)]))
    if c.allocates:
        na = ex.fresh(z3.IntSort(), 'alloc!h')
        st.assume(na >= h.alloc)
        h = h.with_(alloc=na)
    st.h = h
    if 'L_bag' in c.modifies:
        for f in list_axioms(h):
            st.assume(f)
    if c.modifies or c.allocates:
        for f in heap_closed(h, only=set(c.modifies) if not c.allocates else None):
            st.assume(f)
    return h
