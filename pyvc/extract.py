"""
pyvc.extract — the verified text is the code that runs.

On every run the modules of $VERIF_REPO (default /repo, *working tree*) are parsed with `ast`; a function named by a
contract is located by module + qualified name.  What extraction DROPS (complete list, recorded as assumption LOG):
  1. `logger.<level>(...)` expression statements and `if logger.isEnabledFor(...):` blocks (the test is taken as False);
  2. docstrings, annotations (kept in the AST but never interpreted), `__repr__`;
  3. the text of exception messages (an exception is modelled by its class).
Nothing else is dropped; a construct outside the subset makes the function *unsupported* (bounded stand-in), never skipped.
"""
from __future__ import annotations
import ast, hashlib, os

REPO = os.environ.get('VERIF_REPO', '/repo')

_cache: dict[str, ast.Module] = {}


def module_path(mod: str) -> str:
    p = os.path.join(REPO, *mod.split('.'))
    if os.path.isdir(p):
        return os.path.join(p, '__init__.py')
    return p + '.py'


def load_module(mod: str) -> ast.Module:
    if mod not in _cache:
        with open(module_path(mod)) as f:
            _cache[mod] = ast.parse(f.read())
    return _cache[mod]


class _DropLogging(ast.NodeTransformer):
    def __init__(self):
        self.dropped = 0

    @staticmethod
    def _is_logger_call(e):
        return (isinstance(e, ast.Call) and isinstance(e.func, ast.Attribute) and isinstance(e.func.value, ast.Name)
                and e.func.value.id == 'logger')

    def visit_Expr(self, n):
        if self._is_logger_call(n.value):
            self.dropped += 1
            return ast.Pass()
        if isinstance(n.value, ast.Constant) and isinstance(n.value.value, str):
            return ast.Pass()       # docstring / bare string
        return n

    def visit_If(self, n):
        if self._is_logger_call(n.test) and n.test.func.attr == 'isEnabledFor':
            self.dropped += 1
            return [self.visit(s) for s in n.orelse] or ast.Pass()
        self.generic_visit(n)
        return n


class FunctionSource:
    def __init__(self, mod, qualname, node, cls_node):
        self.mod, self.qualname, self.cls_node = mod, qualname, cls_node
        self.raw = node
        self.sha = hashlib.sha256(ast.unparse(node).encode()).hexdigest()[:16]
        self.file = os.path.relpath(module_path(mod), REPO)
        self.lines = (node.lineno, node.end_lineno)
        tr = _DropLogging()
        import copy
        self.node = tr.visit(copy.deepcopy(node))
        ast.fix_missing_locations(self.node)
        self.dropped_logging = tr.dropped
        self.is_property = any(isinstance(d, ast.Name) and d.id == 'property' for d in node.decorator_list)
        self.is_classmethod = any(isinstance(d, ast.Name) and d.id == 'classmethod' for d in node.decorator_list)
        self.is_staticmethod = any(isinstance(d, ast.Name) and d.id == 'staticmethod' for d in node.decorator_list)

    @property
    def key(self):
        return self.mod + ':' + self.qualname

    def describe(self):
        return {'function': self.key, 'file': self.file, 'lines': list(self.lines), 'sha256_16': self.sha,
                'logging_statements_dropped': self.dropped_logging}


def find_function(mod: str, qualname: str) -> FunctionSource:
    tree = load_module(mod)
    parts = qualname.split('.')
    body = tree.body
    cls_node = None
    node = None
    for i, p in enumerate(parts):
        found = None
        for s in body:
            if isinstance(s, (ast.FunctionDef, ast.ClassDef)) and s.name == p:
                found = s
        if found is None:
            raise LookupError('function %s:%s not found in %s' % (mod, qualname, module_path(mod)))
        if isinstance(found, ast.ClassDef):
            cls_node = found
            body = found.body
        node = found
    if not isinstance(node, ast.FunctionDef):
        raise LookupError('%s:%s is not a function' % (mod, qualname))
    return FunctionSource(mod, qualname, node, cls_node if len(parts) > 1 else None)


def count_loops(fn_node) -> int:
    return sum(isinstance(n, (ast.For, ast.While)) for n in ast.walk(fn_node))


def dataclass_fields(mod: str, cls: str):
    """[(name, annotation-source, default-source or None, factory-source or None)] in declaration order"""
    tree = load_module(mod)
    for s in tree.body:
        if isinstance(s, ast.ClassDef) and s.name == cls:
            out = []
            for b in s.body:
                if isinstance(b, ast.AnnAssign) and isinstance(b.target, ast.Name):
                    default = factory = None
                    if b.value is not None:
                        if (isinstance(b.value, ast.Call) and isinstance(b.value.func, ast.Name) and b.value.func.id == 'field'):
                            for kw in b.value.keywords:
                                if kw.arg == 'default_factory':
                                    factory = ast.unparse(kw.value)
                                if kw.arg == 'default':
                                    default = ast.unparse(kw.value)
                        else:
                            default = ast.unparse(b.value)
                    out.append((b.target.id, ast.unparse(b.annotation), default, factory))
            return out
    raise LookupError(cls)
