"""
pyvc.theory — z3 encoding of the Python subset: values, typed heap, lists (len/at/bag), dicts, strings.

Design (see DESIGN.md §2.3; deviations are listed in DESIGN.md "as built"):
* Addresses are integers; `alloc` is the allocation counter (a is allocated iff 0 <= a < alloc).
* One universal datatype Val for values stored in containers / optional fields; heap fields are *typed* arrays chosen
  by the sidecar schema (bool -> Bool, int -> Int, str -> Str, ref -> Addr, anything else -> Val).
* Lists: global arrays L_len, L_at, L_bag keyed by the list's address.  The coupling between `at` and `bag`
  (bag[v] = #{k < len | at[k] = v}) is an axiom of the list theory (trusted encoding T2), used through the
  instantiations the executor adds at reads; contracts talk about bags.
* Dicts: D_has, D_val, D_size, D_keyat (insertion order as an abstract injective enumeration of the keys).
* Strings: uninterpreted sort Str; literals are distinct constants; `+` is the uninterpreted `concat`; str(int) is
  `py_str` (injective).  String reasoning beyond equality is done by named lemmas (proved separately on cvc5).
* Equality on references is identity (assumption EQ-ID / PJS-EQ, see DESIGN.md §2.11).
"""
from __future__ import annotations
import z3

Addr = z3.IntSort()
Str = z3.DeclareSort('Str')

_V = z3.Datatype('Val')
_V.declare('VNone')
_V.declare('VBool', ('b', z3.BoolSort()))
_V.declare('VInt', ('i', z3.IntSort()))
_V.declare('VReal', ('r', z3.RealSort()))
_V.declare('VStr', ('s', Str))
_V.declare('VRef', ('a', Addr))
Val = _V.create()

VNone = Val.VNone
VBool, VInt, VReal, VStr, VRef = Val.VBool, Val.VInt, Val.VReal, Val.VStr, Val.VRef
is_VNone, is_VBool, is_VInt, is_VReal, is_VStr, is_VRef = (
    Val.is_VNone, Val.is_VBool, Val.is_VInt, Val.is_VReal, Val.is_VStr, Val.is_VRef)
v_b, v_i, v_r, v_s, v_a = Val.b, Val.i, Val.r, Val.s, Val.a

BagSort = z3.ArraySort(Val, z3.IntSort())
SeqSort = z3.ArraySort(z3.IntSort(), Val)
SetVB = z3.ArraySort(Val, z3.BoolSort())
MapVV = z3.ArraySort(Val, Val)

EMPTY_BAG = z3.K(Val, z3.IntVal(0))
EMPTY_HAS = z3.K(Val, z3.BoolVal(False))

# --- strings ---------------------------------------------------------------------------------------
_str_consts: dict[str, z3.ExprRef] = {}
concat = z3.Function('concat', Str, Str, Str)
py_str = z3.Function('py_str', z3.IntSort(), Str)          # str(int)
py_int = z3.Function('py_int', Str, z3.IntSort())          # int(str)
str_of_val = z3.Function('str_of_val', Val, Str)           # str(x) for other values (uninterpreted)
real_of_str = z3.Function('real_of_str', Str, z3.RealSort())
str_of_real = z3.Function('str_of_real', z3.RealSort(), Str)


def str_const(s: str):
    c = _str_consts.get(s)
    if c is None:
        c = z3.Const('str!' + ''.join(ch if ch.isalnum() else '_%02x' % ord(ch) for ch in s) + '!%d' % len(_str_consts), Str)
        _str_consts[s] = c
    return c


def string_axioms():
    """distinctness of the literals seen so far + STRINT axioms"""
    ax = []
    cs = list(_str_consts.values())
    if len(cs) > 1:
        ax.append(z3.Distinct(*cs))
    i = z3.Int('i!sx')
    j = z3.Int('j!sx')
    ax.append(z3.ForAll([i], py_int(py_str(i)) == i, patterns=[py_str(i)]))
    r = z3.Real('r!sx')
    ax.append(z3.ForAll([r], real_of_str(str_of_real(r)) == r, patterns=[str_of_real(r)]))
    return ax


# --- class tags ------------------------------------------------------------------------------------
_class_ids: dict[str, int] = {}


def class_id(name: str) -> int:
    if name not in _class_ids:
        _class_ids[name] = len(_class_ids) + 1
    return _class_ids[name]


CLS_LIST = class_id('list')
CLS_DICT = class_id('dict')
CLS_SET = class_id('set')
CLS_TUPLE = class_id('tuple')

_field_ids: dict[str, int] = {}


def field_id(name: str) -> int:
    if name not in _field_ids:
        _field_ids[name] = len(_field_ids) + 1
    return _field_ids[name]


# --- type specs ------------------------------------------------------------------------------------
class T:
    """Static type hint.  kind in bool,int,real,str,none,val,obj,list,dict,tuple ; `cls` for obj; `elem` for list/dict values;
    `opt` = may be None (then the storage sort is Val)."""
    __slots__ = ('kind', 'cls', 'elem', 'key', 'opt', 'elts', 'rec', 'req')

    def __init__(self, kind, cls=None, elem=None, key=None, opt=False, elts=None, rec=None, req=None):
        self.kind, self.cls, self.elem, self.key, self.opt, self.elts = kind, cls, elem, key, opt, elts
        self.rec = rec          # for dicts used as records (JSON objects): constant key -> T of the value
        self.req = req          # keys of `rec` that are always present

    def __repr__(self):
        s = self.kind + (':' + self.cls if self.cls else '')
        if self.elem is not None:
            s += '[' + repr(self.elem) + ']'
        return ('opt ' if self.opt else '') + s

    @property
    def sort(self):
        if self.opt:
            return Val
        return {'bool': z3.BoolSort(), 'int': z3.IntSort(), 'real': z3.RealSort(), 'str': Str, 'obj': Addr, 'list': Addr,
                'dict': Addr, 'set': Addr}.get(self.kind, Val)


T.bool = T('bool'); T.int = T('int'); T.real = T('real'); T.str = T('str'); T.val = T('val'); T.none = T('none')


def Obj(cls, opt=False): return T('obj', cls=cls, opt=opt)
def List(elem=None, opt=False): return T('list', cls='list', elem=elem, opt=opt)
def Dict(key=None, elem=None, opt=False, rec=None, req=None):
    return T('dict', cls='dict', key=key, elem=elem, opt=opt, rec=rec, req=(set(rec) if rec is not None and req is None else req))
def Opt(t: T): return T(t.kind, t.cls, t.elem, t.key, True, t.elts, t.rec, t.req)
def NonOpt(t: T): return T(t.kind, t.cls, t.elem, t.key, False, t.elts, t.rec, t.req)


# --- symbolic values -------------------------------------------------------------------------------
class SV:
    """A symbolic Python value with a static kind.  kind: none,bool,int,real,str,ref,val,tuple,func
    t: z3 term in the natural sort of the kind (Val for 'val'); ty: static T hint (class, element types) when known."""
    __slots__ = ('kind', 't', 'ty', 'elts', 'py')

    def __init__(self, kind, t=None, ty=None, elts=None, py=None):
        self.kind, self.t, self.ty, self.elts, self.py = kind, t, ty, elts, py

    def __repr__(self):
        return 'SV(%s,%s,%s)' % (self.kind, self.t if self.kind != 'tuple' else self.elts, self.ty)

    @property
    def cls(self):
        return self.ty.cls if self.ty is not None else None


SV_NONE = SV('none')


def sv_bool(t): return SV('bool', t if isinstance(t, z3.ExprRef) else z3.BoolVal(bool(t)))
def sv_int(t): return SV('int', t if isinstance(t, z3.ExprRef) else z3.IntVal(int(t)))
def sv_real(t): return SV('real', t if isinstance(t, z3.ExprRef) else z3.RealVal(t))
def sv_str(t): return SV('str', t if isinstance(t, z3.ExprRef) else str_const(t))
def sv_ref(t, ty=None): return SV('ref', t, ty)
def sv_val(t, ty=None): return SV('val', t, ty)
def sv_tuple(elts): return SV('tuple', None, None, list(elts))


def to_val(sv: SV):
    k = sv.kind
    if k == 'val': return sv.t
    if k == 'none': return VNone
    if k == 'bool': return VBool(sv.t)
    if k == 'int': return VInt(sv.t)
    if k == 'real': return VReal(sv.t)
    if k == 'str': return VStr(sv.t)
    if k == 'ref': return VRef(sv.t)
    raise Unsupported('to_val of ' + k)


def from_sort(term, ty: T | None):
    """wrap a z3 term read from a typed location"""
    if ty is None or ty.opt or ty.kind in ('val',):
        return SV('val', term, ty)
    k = ty.kind
    if k == 'bool': return SV('bool', term, ty)
    if k == 'int': return SV('int', term, ty)
    if k == 'real': return SV('real', term, ty)
    if k == 'str': return SV('str', term, ty)
    if k in ('obj', 'list', 'dict', 'set'): return SV('ref', term, ty)
    if k == 'none': return SV_NONE
    return SV('val', term, ty)


def from_val(term, ty: T | None):
    """interpret a Val term under a static hint (the hint is a typing assumption of the encoding)"""
    if ty is None or ty.opt or ty.kind == 'val':
        return SV('val', term, ty)
    k = ty.kind
    if k == 'bool': return SV('bool', v_b(term), ty)
    if k == 'int': return SV('int', v_i(term), ty)
    if k == 'real': return SV('real', v_r(term), ty)
    if k == 'str': return SV('str', v_s(term), ty)
    if k in ('obj', 'list', 'dict', 'set'): return SV('ref', v_a(term), ty)
    return SV('val', term, ty)


def tag_pred(term, ty: T):
    """the tag a Val must carry to conform to ty (used as typing assumption / obligation)"""
    k = ty.kind
    p = {'bool': is_VBool, 'int': is_VInt, 'real': is_VReal, 'str': is_VStr, 'obj': is_VRef, 'list': is_VRef,
         'dict': is_VRef, 'set': is_VRef, 'none': is_VNone}.get(k)
    if p is None:
        return z3.BoolVal(True)
    q = p(term)
    if ty.opt:
        q = z3.Or(q, is_VNone(term))
    return q


def coerce(sv: SV, ty: T):
    """term of ty.sort for storing sv into a location of type ty, plus a side condition (None = statically fine)."""
    if ty.opt or ty.kind == 'val':
        v = to_val(sv)
        if sv.kind == 'val' and ty.kind != 'val':
            return v, tag_pred(v, ty)
        if sv.kind != 'val' and ty.kind != 'val':
            ok = (sv.kind == 'none') or _kind_matches(sv.kind, ty.kind)
            return v, (None if ok else z3.BoolVal(False))
        return v, None
    if sv.kind == 'val':
        v = sv.t
        acc = {'bool': v_b, 'int': v_i, 'real': v_r, 'str': v_s}.get(ty.kind, v_a)
        return acc(v), tag_pred(v, ty)
    if _kind_matches(sv.kind, ty.kind):
        return sv.t, None
    if sv.kind == 'int' and ty.kind == 'real':
        return z3.ToReal(sv.t), None
    return (z3.FreshConst(ty.sort, 'bad')), z3.BoolVal(False)


def _kind_matches(svkind, tkind):
    if svkind == 'ref':
        return tkind in ('obj', 'list', 'dict', 'set')
    return svkind == tkind


class Dual:
    """a specification clause in two logically related forms: `goal` is what has to be PROVED wherever the clause is an
    obligation; `hyp` is what may be ASSUMED wherever it is a hypothesis.  Requirement (argued where a Dual is built):
    goal implies the existence of an interpretation of the extra function symbols of `hyp` that makes `hyp` true (hyp is a
    Skolemised consequence of goal).  Used for pairwise-distinctness clauses: proving them costs nothing (two Skolem
    constants) while assuming them pairwise costs a quadratic number of instances; the assumed form is an inverse function."""
    __slots__ = ('goal', 'hyp')

    def __init__(self, goal, hyp):
        self.goal, self.hyp = goal, hyp


def as_hyp(f): return f.hyp if isinstance(f, Dual) else f
def as_goal(f): return f.goal if isinstance(f, Dual) else f


class Unsupported(Exception):
    """construct outside the verified subset: the function is demoted to the bounded stand-in, never a violation"""


# --- heap ------------------------------------------------------------------------------------------
BUILTIN_ARRAYS = {
    'L_len': z3.ArraySort(Addr, z3.IntSort()),
    'L_at': z3.ArraySort(Addr, SeqSort),
    'L_bag': z3.ArraySort(Addr, BagSort),
    'D_has': z3.ArraySort(Addr, SetVB),
    'D_val': z3.ArraySort(Addr, MapVV),
    'D_size': z3.ArraySort(Addr, z3.IntSort()),
    'D_keyat': z3.ArraySort(Addr, SeqSort),
    'cls': z3.ArraySort(Addr, z3.IntSort()),
    'own_obj': z3.ArraySort(Addr, Addr),
    'own_fld': z3.ArraySort(Addr, z3.IntSort()),
    # ghost: the object an object is a (transitive) deep copy of; a newly allocated object is its own origin.  Written only
    # at allocation and by the DEEPCOPY contract, both at fresh addresses: the origin of an existing object never changes
    # (this meta-invariant is assumed wherever `orig` is havoced, see calls.havoc / loops._havoc_into)
    'orig': z3.ArraySort(Addr, Addr),
}
LIST_ARRAYS = ('L_len', 'L_at', 'L_bag')
DICT_ARRAYS = ('D_has', 'D_val', 'D_size', 'D_keyat')


class Schema:
    """attribute name -> T (one array per attribute name, shared by all classes that have the attribute)"""

    def __init__(self):
        self.attrs: dict[str, T] = {}
        self.classes: dict[str, dict[str, T]] = {}
        self.dataclass_fields: dict[str, list] = {}     # class -> [(name, T, default-kind)]
        self.alias: dict = {}                              # (class, attr) -> storage attribute name
        self.presence: dict = {}                           # (class, attr) -> ghost bool field: hasattr(obj, attr) for dynamically added attributes

    def add_class(self, name, fields: dict[str, T]):
        self.classes.setdefault(name, {}).update(fields)
        for a, t in fields.items():
            old = self.attrs.get(a)
            if old is not None and old.sort.name() != t.sort.name():
                # same attribute name with another storage sort in another class: class-qualified array
                m = name + '__' + a
                self.alias[(name, a)] = m
                self.attrs[m] = t
                continue
            if old is None:
                self.attrs[a] = t

    def storage(self, cls, attr) -> str:
        return self.alias.get((cls, attr), attr)

    def attr_type(self, cls, attr) -> T | None:
        if cls and cls in self.classes and attr in self.classes[cls]:
            return self.classes[cls][attr]
        return self.attrs.get(attr)

    def array_sort(self, name):
        if name in BUILTIN_ARRAYS:
            return BUILTIN_ARRAYS[name]
        return z3.ArraySort(Addr, self.attrs[name].sort)

    def all_arrays(self):
        return list(BUILTIN_ARRAYS) + ['f_' + a for a in self.attrs]


class H:
    """immutable heap snapshot: dict array-name -> z3 array term, plus alloc"""
    __slots__ = ('arr', 'alloc', 'schema')

    def __init__(self, schema: Schema, arr: dict, alloc):
        self.schema, self.arr, self.alloc = schema, arr, alloc

    @staticmethod
    def fresh(schema: Schema, tag: str):
        arr = {}
        for n, s in BUILTIN_ARRAYS.items():
            arr[n] = z3.Const('%s!%s' % (n, tag), s)
        for a, t in schema.attrs.items():
            arr['f_' + a] = z3.Const('f_%s!%s' % (a, tag), z3.ArraySort(Addr, t.sort))
        return H(schema, arr, z3.Int('alloc!%s' % tag))

    def with_(self, **kw):
        arr = dict(self.arr)
        alloc = kw.pop('alloc', self.alloc)
        arr.update(kw)
        return H(self.schema, arr, alloc)

    def set(self, name, term):
        arr = dict(self.arr)
        arr[name] = term
        return H(self.schema, arr, self.alloc)

    # field access (raw terms)
    def f(self, attr, a):
        return z3.Select(self.arr['f_' + attr], a)

    def len(self, l): return z3.Select(self.arr['L_len'], l)
    def bagof(self, l): return z3.Select(self.arr['L_bag'], l)
    def bag(self, l, v): return z3.Select(z3.Select(self.arr['L_bag'], l), v)
    def at(self, l, i): return z3.Select(z3.Select(self.arr['L_at'], l), i)
    def has(self, d, k): return z3.Select(z3.Select(self.arr['D_has'], d), k)
    def val(self, d, k): return z3.Select(z3.Select(self.arr['D_val'], d), k)
    def size(self, d): return z3.Select(self.arr['D_size'], d)
    def cls(self, a): return z3.Select(self.arr['cls'], a)
    def allocated(self, a): return z3.And(a >= 0, a < self.alloc)
    def own_obj(self, l): return z3.Select(self.arr['own_obj'], l)
    def own_fld(self, l): return z3.Select(self.arr['own_fld'], l)
    def orig(self, x): return z3.Select(self.arr['orig'], x)

    # convenience for contracts: membership of a reference in a list
    def inl(self, l, a):
        """reference a is an element of list l (bag view)"""
        return self.bag(l, VRef(a)) > 0

    def cnt(self, l, a):
        return self.bag(l, VRef(a))


def heap_eq_except(h0: H, h1: H, names):
    """conjunction: every array not in names is equal"""
    out = []
    for n in h0.arr:
        if n in names:
            continue
        if not z3.eq(h0.arr[n], h1.arr[n]):
            out.append(h0.arr[n] == h1.arr[n])
    return out
