"""
./check <property-id> [--tier quick|thorough] [--seed N]      decide one property on $VERIF_REPO's working tree
./check --replay <replay-file>                                 re-run a recorded failing input on the real code

Exit 0: nothing refuted, bounded floor clean (or only listed known findings).  Exit 1: >=1 line
`VIOLATION property=<id> replay=<path>[ no-failing-input-found]`.  Exit 3: the checker itself is broken.
"""
from __future__ import annotations
import argparse, hashlib, json, os, subprocess, sys, time, re

ROOT = os.path.dirname(os.path.dirname(os.path.abspath(__file__)))
sys.path.insert(0, ROOT)
REPO = os.environ.get('VERIF_REPO', '/repo')


def load_known():
    out = {'floor': {}, 'obligation': {}, 'fixed': []}
    p = os.path.join(ROOT, 'known_findings.txt')
    if not os.path.exists(p):
        return out
    for line in open(p):
        line = line.strip()
        if not line or line.startswith('#'):
            continue
        if line.startswith('fixed:'):
            out['fixed'].append(line)
            continue
        if line.startswith('finding:'):
            kv = dict(re.findall(r'(\w+)=(\S+)', line.split('::')[0]))
            text = line.split('::', 1)[1].strip() if '::' in line else ''
            prop = kv.get('property')
            if kv.get('kind') == 'floor':
                out['floor'][(prop, kv.get('key'))] = text
            elif kv.get('kind') == 'obligation':
                out['obligation'][(prop, kv.get('name'))] = text
    return out


def start_floor(prop, tier, seed):
    path = os.path.join(ROOT, 'native', 'floor_%s.py' % prop)
    if not os.path.exists(path):
        return None
    os.makedirs(os.path.join(ROOT, 'evidence'), exist_ok=True)
    out = os.path.join(ROOT, 'evidence', '.floor_%s_%d.json' % (prop, os.getpid()))     # per run: two runs of one check may overlap
    if os.path.exists(out):
        os.unlink(out)
    env = dict(os.environ)
    env['PYTHONPATH'] = REPO + os.pathsep + os.path.join(ROOT, 'native')
    env['PYTHONHASHSEED'] = env.get('PYTHONHASHSEED', '0')
    # every floor run gets a scratch directory of its own, removed when the floor is done (killed workers leave files)
    import tempfile
    scratch = tempfile.mkdtemp(prefix='verif_floor_%s_' % prop)
    env['TMPDIR'] = scratch
    errf = open(out + '.err', 'w')
    p = subprocess.Popen(['/venv/bin/python', '-u', path, '--tier', tier, '--seed', str(seed), '--out', out],
                         env=env, stdout=errf, stderr=subprocess.STDOUT, cwd=ROOT)
    return (p, out, errf, tier, scratch)


def finish_floor(handle):
    if handle is None:
        return None, 'no floor'
    p, out, errf, tier, scratch = handle
    budget = 140 if tier == 'quick' else 1800
    import shutil
    try:
        p.wait(timeout=budget + 120)
    except subprocess.TimeoutExpired:
        p.kill()
        return None, 'floor timed out'
    finally:
        errf.close()
        shutil.rmtree(scratch, ignore_errors=True)
    err = open(out + '.err').read()[-800:]
    os.unlink(out + '.err')
    if not os.path.exists(out):
        return None, 'floor crashed (exit %d): %s' % (p.returncode, err)
    d = json.load(open(out))
    os.unlink(out)
    if p.returncode not in (0, 3):
        return d, 'floor exit %d' % p.returncode
    return d, None


def stable_obligation_name(n):
    """name without the volatile exit/site numbering (used for known-finding keys)"""
    return re.sub(r'(@exit\d+|#\d+|~\d+)', '', n)


def write_replay(prop, name, doc):
    os.makedirs(os.path.join(ROOT, 'replays'), exist_ok=True)
    hid = hashlib.sha256((prop + '|' + name + '|' + json.dumps(doc.get('recipe'), sort_keys=True, default=str)).encode()).hexdigest()[:10]
    safe = re.sub(r'[^A-Za-z0-9_.-]+', '_', name)[:80]
    path = os.path.join('replays', '%s-%s-%s.json' % (prop, safe, hid))
    with open(os.path.join(ROOT, path), 'w') as f:
        json.dump(doc, f, indent=1, default=str)
    return path


def replay(path):
    doc = json.load(open(path))
    prop = doc['property']
    print('replay file   :', path)
    print('property      :', prop)
    if doc.get('obligation'):
        print('obligation    :', doc['obligation'])
        print('verdict       :', doc.get('verdict'), 'by', doc.get('backend'))
        print('solver output :', (doc.get('solver_output') or '')[:1500])
    if doc.get('recipe') is None:
        print('no failing input recorded (no-failing-input-found): the obligation above is what fails; '
              're-run `./check %s` to regenerate it from the current source' % prop)
        # re-check the obligation on the current tree
        rc = subprocess.run([sys.executable, os.path.abspath(__file__), prop, '--only-prover', '--quiet'], cwd=ROOT).returncode
        return rc
    env = dict(os.environ)
    env['PYTHONPATH'] = REPO + os.pathsep + os.path.join(ROOT, 'native')
    fl = os.path.join(ROOT, 'native', 'floor_%s.py' % doc.get('floor_property', prop))
    return subprocess.run(['/venv/bin/python', '-u', fl, '--replay', os.path.abspath(path)], env=env, cwd=ROOT).returncode


def main():
    ap = argparse.ArgumentParser()
    ap.add_argument('prop', nargs='?')
    ap.add_argument('--tier', default=os.environ.get('VERIF_TIER', 'quick'), choices=['quick', 'thorough'])
    ap.add_argument('--seed', type=int, default=int(os.environ.get('VERIF_SEED', '0') or 0))
    ap.add_argument('--replay')
    ap.add_argument('--only-prover', action='store_true')
    ap.add_argument('--only-floor', action='store_true')
    ap.add_argument('--quiet', action='store_true')
    a = ap.parse_args()
    if a.replay:
        sys.exit(replay(a.replay))
    if not a.prop:
        ap.error('property id required')
    prop = a.prop
    t0 = time.time()
    from pyvc import prover
    known = load_known()
    violations, known_lines, undecided = [], [], []
    checker_errors = []

    fl_handle = None if a.only_prover else start_floor(prop, a.tier, a.seed)
    # ---------------- deductive side
    pr = None
    if not a.only_floor:
        try:
            pr = prover.run_property(prop, a.tier)
        except Exception as e:
            import traceback
            checker_errors.append('prover crashed: %s\n%s' % (e, traceback.format_exc()[-2000:]))
    # ---------------- bounded floor
    fl, fl_err = (None, None)
    if not a.only_prover:
        fl, fl_err = finish_floor(fl_handle)
        if fl_err and fl_err != 'no floor':
            checker_errors.append('floor: ' + fl_err)
        if fl and fl.get('harness_errors'):
            checker_errors.append('floor harness errors: ' + json.dumps(fl['harness_errors'])[:1500])

    floor_fail = list(fl['failures']) if fl else []
    used_floor = set()
    if pr:
        for e in pr['errors']:
            checker_errors.append(e)
        for u in pr['unsupported']:
            undecided.append('UNDECIDED function=%s reason=%s (outside the verified subset or contract shape mismatch; '
                             'decided by the bounded floor only)' % (u['function'], u['reason']))
        for ob in pr['failed']:
            sname = stable_obligation_name(ob['name'])
            match = None
            for i, ff in enumerate(floor_fail):
                if ff['function'] == ob['function']:
                    match = i
                    break
            if match is None and floor_fail:
                match = 0
            doc = {'property': prop, 'obligation': ob['name'], 'function': ob['function'], 'verdict': ob['verdict'],
                   'backend': ob['backend'], 'solver_output': ob['model'], 'source': ob.get('source'),
                   'recipe': None}
            if match is not None:
                ff = floor_fail[match]
                used_floor.add(match)
                doc.update({'recipe': ff['recipe'], 'clause': ff['clause'], 'signature': ff['signature'],
                            'message': ff['message'], 'floor_key': ff['key']})
            kf = known['obligation'].get((prop, sname))
            if kf is not None:
                known_lines.append('KNOWN-FINDING: property=%s obligation %s fails: %s' % (prop, sname, kf))
                continue
            path = write_replay(prop, sname, doc)
            violations.append('VIOLATION property=%s replay=%s%s' % (prop, path, '' if doc['recipe'] is not None else ' no-failing-input-found')
                              + '\n    obligation %s: %s (%s)' % (ob['name'], ob['verdict'], ob['backend']))
        for ob in pr['unknown']:
            undecided.append('UNDECIDED obligation=%s (solver timeout on every back end; not a violation)' % ob['name'])
    for i, ff in enumerate(floor_fail):
        kf = known['floor'].get((prop, ff['key']))
        if kf is not None:
            known_lines.append('KNOWN-FINDING: property=%s clause=%s signature=%s (%d failing inputs, smallest %s): %s' % (
                prop, ff['clause'], ff['signature'], ff['count'], json.dumps(ff['recipe'])[:300], kf))
            continue
        if i in used_floor:
            continue
        doc = {'property': prop, 'obligation': None, 'function': ff['function'], 'clause': ff['clause'],
               'signature': ff['signature'], 'recipe': ff['recipe'], 'message': ff['message'], 'floor_key': ff['key']}
        path = write_replay(prop, ff['clause'] + '.' + ff['signature'], doc)
        violations.append('VIOLATION property=%s replay=%s' % (prop, path)
                          + '\n    bounded stand-in: clause %s false on the real code (%s; %d failing inputs; key=%s): %s' % (
                              ff['clause'], ff['function'], ff['count'], ff['key'], ff['message'][:300]))

    # ---------------- evidence
    ev = prover.evidence(prop, a.tier, a.seed, pr, fl, violations, known_lines, undecided, checker_errors, time.time() - t0)
    os.makedirs(os.path.join(ROOT, 'evidence'), exist_ok=True)
    if not (a.only_prover or a.only_floor):
        with open(os.path.join(ROOT, 'evidence', prop + '.json'), 'w') as f:
            json.dump(ev, f, indent=1, default=str)
    # ---------------- report
    if not a.quiet:
        if pr:
            print('%s deductive: %d functions under contract, %d obligations, %d discharged (%s), %.1fs solver time' % (
                prop, len(pr['functions']), pr['n_obligations'], pr['n_discharged'],
                ', '.join('%s=%d' % kv for kv in sorted(pr['by_backend'].items())), pr['solver_seconds']))
        if fl:
            print('%s bounded floor: %d cases, %d distinct non-trivial, %d failing clause/signature groups, %.1fs [%s]' % (
                prop, fl['evaluations'], fl['distinct_nontrivial'], len(fl['failures']), fl['wall_s'], fl['scope'][:120]))
    for l in undecided:
        print(l)
    for l in known_lines:
        print(l)
    for l in violations:
        print(l)
    if checker_errors:
        for e in checker_errors:
            print('CHECKER-ERROR', e, file=sys.stderr)
        sys.exit(1 if violations else 3)
    sys.exit(1 if violations else 0)


if __name__ == '__main__':
    try:
        main()
    except SystemExit:
        raise
    except BaseException:
        # a crash of the checker itself is exit 3 (never 1: exit 1 is reserved for a violation with its VIOLATION line)
        import traceback
        traceback.print_exc()
        print('CHECKER-ERROR: the check crashed; nothing is reported about the property')
        sys.exit(3)
