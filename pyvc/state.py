"""pyvc.state — symbolic state, obligations, merging."""
from __future__ import annotations
import z3
from .theory import *


def has_ite(t) -> bool:
    """does the term contain a boolean connective / ite / comparison (not allowed inside quantifier patterns)?
    (no cross-call memo: z3 AST ids are recycled after garbage collection)"""
    stack, seen = [t], set()
    while stack:
        x = stack.pop()
        i = x.get_id()
        if i in seen:
            continue
        seen.add(i)
        if z3.is_quantifier(x):
            return True
        if z3.is_app(x):
            k = x.decl().kind()
            if k in (z3.Z3_OP_ITE, z3.Z3_OP_NOT, z3.Z3_OP_AND, z3.Z3_OP_OR, z3.Z3_OP_IMPLIES, z3.Z3_OP_EQ, z3.Z3_OP_LE,
                     z3.Z3_OP_GE, z3.Z3_OP_LT, z3.Z3_OP_GT, z3.Z3_OP_DISTINCT):
                return True
            stack.extend(x.children())
    return False


class Obligation:
    __slots__ = ('name', 'hyps', 'goal', 'kind', 'fn', 'note', 'budget')

    def __init__(self, name, hyps, goal, kind, fn, note=''):
        self.name, self.hyps, self.goal, self.kind, self.fn, self.note = name, [as_hyp(x) for x in hyps], as_goal(goal), kind, fn, note
        self.budget = None          # per-attempt solver budget in seconds (None: the tier's default)


class State:
    __slots__ = ('h', 'locals', 'pc', 'ghost')

    def __init__(self, h: H, locals=None, pc=None, ghost=None):
        self.h = h
        self.locals = dict(locals or {})
        self.pc = list(pc or [])
        self.ghost = dict(ghost or {})

    def fork(self):
        return State(self.h, self.locals, self.pc, self.ghost)

    def assume(self, f):
        if f is None:
            return
        f = as_hyp(f)
        if isinstance(f, bool):
            f = z3.BoolVal(f)
        if z3.is_true(f):
            return
        self.pc.append(f)

    def set_arr(self, name, term):
        if has_ite(term):
            k = z3.FreshConst(term.sort(), name + '!n')
            self.pc.append(k == term)
            term = k
        self.h = self.h.set(name, term)

    def name_sv(self, sv: 'SV') -> 'SV':
        """give a pattern-safe name to a value whose term contains ite / connectives"""
        if sv.kind == 'tuple':
            return sv_tuple([self.name_sv(x) for x in sv.elts])
        if sv.t is None or sv.kind == 'bool' or not has_ite(sv.t):
            return sv
        k = z3.FreshConst(sv.t.sort(), 'val!n')
        self.pc.append(k == sv.t)
        return SV(sv.kind, k, sv.ty, None, sv.py)

    def alloc_addr(self, cls_id: int):
        a = self.h.alloc
        h = self.h.with_(alloc=a + 1)
        h = h.set('cls', z3.Store(h.arr['cls'], a, z3.IntVal(cls_id)))
        h = h.set('own_obj', z3.Store(h.arr['own_obj'], a, z3.IntVal(-1)))
        h = h.set('orig', z3.Store(h.arr['orig'], a, a))
        self.h = h
        return a


def named_heap(st: 'State') -> H:
    """heap snapshot whose arrays are plain constants (defining equations go to the path condition), so that contract
    clauses may use any heap term inside quantifier patterns"""
    arr = {}
    changed = False
    for n, t in st.h.arr.items():
        if z3.is_const(t) and t.decl().kind() == z3.Z3_OP_UNINTERPRETED:
            arr[n] = t
        else:
            k = z3.FreshConst(t.sort(), n + '!s')
            st.pc.append(k == t)
            arr[n] = k
            changed = True
    al = st.h.alloc
    if not (z3.is_const(al) and al.decl().kind() == z3.Z3_OP_UNINTERPRETED):
        k = z3.FreshConst(z3.IntSort(), 'alloc!s')
        st.pc.append(k == al)
        al = k
        changed = True
    if changed:
        st.h = H(st.h.schema, arr, al)
    return st.h


def heap_closed(h: H, only=None):
    """HEAP-CLOSED: a reference stored in a field of an allocated object is allocated (global invariant of the Python heap)"""
    out = []
    x = z3.Const('x!hc', Addr)
    for a, t in h.schema.attrs.items():
        if only is not None and ('f_' + a) not in only:
            continue
        if t.kind in ('obj', 'list', 'dict', 'set') and not t.opt:
            fx = h.f(a, x)
            out.append(z3.ForAll([x], z3.Implies(z3.And(x >= 0, x < h.alloc), z3.And(fx >= 0, fx < h.alloc)), patterns=[fx]))
        elif t.opt and t.kind in ('obj', 'list', 'dict', 'set'):
            fx = h.f(a, x)
            out.append(z3.ForAll([x], z3.Implies(z3.And(x >= 0, x < h.alloc, is_VRef(fx)), z3.And(v_a(fx) >= 0, v_a(fx) < h.alloc)),
                                 patterns=[fx]))
    v = z3.Const('v!hc', Val)
    if only is not None and not ({'L_bag', 'D_has', 'D_val'} & only):
        return out
    out.append(z3.ForAll([x, v], z3.Implies(z3.And(x >= 0, x < h.alloc, h.bag(x, v) > 0, is_VRef(v)),
                                            z3.And(v_a(v) >= 0, v_a(v) < h.alloc)), patterns=[h.bag(x, v)]))
    out.append(z3.ForAll([x, v], z3.Implies(z3.And(x >= 0, x < h.alloc, h.has(x, v), is_VRef(h.val(x, v))),
                                            z3.And(v_a(h.val(x, v)) >= 0, v_a(h.val(x, v)) < h.alloc)), patterns=[h.val(x, v)]))
    return out


def list_axioms(h: H):
    """list theory: multiplicities and lengths are non-negative (for every list object of heap h)"""
    l = z3.Const('l!la', Addr)
    v = z3.Const('v!la', Val)
    j = z3.Int('j!la')
    return [z3.ForAll([l, v], h.bag(l, v) >= 0, patterns=[h.bag(l, v)]),
            z3.ForAll([l], z3.And(h.len(l) >= 0, (h.len(l) == 0) == (h.bagof(l) == EMPTY_BAG)), patterns=[h.len(l)]),
            # coupling instance: what sits at a valid position is a member
            z3.ForAll([l, j], z3.Implies(z3.And(0 <= j, j < h.len(l)), h.bag(l, h.at(l, j)) > 0), patterns=[h.at(l, j)])]


class Exit:
    __slots__ = ('kind', 'value', 'state', 'exc', 'site')

    def __init__(self, kind, state, value=None, exc=None, site=''):
        self.kind, self.state, self.value, self.exc, self.site = kind, state, value, exc, site


def same_sv(a: SV, b: SV) -> bool:
    if a is b:
        return True
    if a.kind != b.kind:
        return False
    if a.kind == 'tuple':
        return len(a.elts) == len(b.elts) and all(same_sv(x, y) for x, y in zip(a.elts, b.elts))
    if a.kind == 'none':
        return True
    if a.kind in ('func', 'exc', 'cls', 'iter'):
        return a.py == b.py
    return a.t is not None and b.t is not None and z3.eq(a.t, b.t)


def _same_rec(a, b):
    if a.rec is None and b.rec is None:
        return True
    if a.rec is None or b.rec is None:
        return False
    return set(a.rec) == set(b.rec) and all(repr(a.rec[k]) == repr(b.rec[k]) for k in a.rec) and set(a.req or ()) == set(b.req or ())


def merge_ty(a, b):
    """join of two static type hints.  Hints are ASSUMED at reads (TYPES), so the join keeps only what both sides declare:
    element / key types and record layouts survive only when they agree"""
    if a is None or b is None:
        return None
    if a.kind == b.kind and a.cls == b.cls:
        if repr(a) == repr(b) and repr(a.key) == repr(b.key) and _same_rec(a, b) and repr(a.elts) == repr(b.elts):
            return a
        # (an absent element hint is what an empty literal `[]` / `{}` carries: it does not contradict the other side's)
        elem = a.elem if (repr(a.elem) == repr(b.elem) or b.elem is None) else (b.elem if a.elem is None else None)
        key = a.key if (repr(a.key) == repr(b.key) or b.key is None) else (b.key if a.key is None else None)
        same = _same_rec(a, b)
        return T(a.kind, a.cls, elem, key, a.opt or b.opt, a.elts if repr(a.elts) == repr(b.elts) else None, a.rec if same else None, a.req if same else None)
    return None


def merge_sv(c, a: SV, b: SV) -> SV:
    """value that is `a` when c holds else `b`"""
    if same_sv(a, b):
        return a if a.ty is not None or b.ty is None else b
    if a.kind == 'tuple' and b.kind == 'tuple' and len(a.elts) == len(b.elts):
        return sv_tuple([merge_sv(c, x, y) for x, y in zip(a.elts, b.elts)])
    if a.kind == b.kind and a.kind in ('bool', 'int', 'real', 'str', 'ref'):
        ty = merge_ty(a.ty, b.ty)
        return SV(a.kind, z3.If(c, a.t, b.t), ty)
    if a.kind in ('tuple', 'func', 'exc', 'cls', 'iter') or b.kind in ('tuple', 'func', 'exc', 'cls', 'iter'):
        raise Unsupported('merge of %s and %s' % (a.kind, b.kind))
    # mixed kinds -> Val; keep a type hint when one side is None and the other typed
    ty = None
    if a.kind == 'none' and b.ty is not None:
        ty = Opt(b.ty)
    elif b.kind == 'none' and a.ty is not None:
        ty = Opt(a.ty)
    elif a.kind == 'none' and b.kind in ('bool', 'int', 'real', 'str'):
        ty = T(b.kind, opt=True)
    elif b.kind == 'none' and a.kind in ('bool', 'int', 'real', 'str'):
        ty = T(a.kind, opt=True)
    elif a.kind == 'val' and b.kind == 'val':
        ty = a.ty if (a.ty is not None and b.ty is not None and repr(a.ty) == repr(b.ty) and repr(a.ty.key) == repr(b.ty.key) and _same_rec(a.ty, b.ty)) else None
    elif a.kind == 'val' and a.ty is not None and (b.kind == 'none' or _fits(b, a.ty)):
        ty = _join_hint(a.ty, b)
    elif b.kind == 'val' and b.ty is not None and (a.kind == 'none' or _fits(a, b.ty)):
        ty = _join_hint(b.ty, a)
    return SV('val', z3.If(c, to_val(a), to_val(b)), ty)


def _join_hint(ty, other: SV):
    """type hint of a value that is either of declared type `ty` or the value `other`: a RECORD type (dict with required
    keys, whose presence is ASSUMED at reads) survives only when the other side is declared as the same record — a plain
    dict such as a fresh `{}` does not have the required keys (`x = d['reaches'] or {}`)"""
    if ty.rec is not None and other.kind == 'ref' and not (other.ty is not None and other.ty.rec is not None and repr(other.ty) == repr(ty)
                                                           and set(other.ty.req or ()) == set(ty.req or ())):
        return T(ty.kind, ty.cls, ty.elem, ty.key, ty.opt, ty.elts, None, None)
    return ty


def _fits(sv, ty):
    if sv.kind == 'ref':
        return ty.kind in ('obj', 'list', 'dict', 'set') and (sv.cls is None or sv.cls == ty.cls)
    return sv.kind == ty.kind


def merge_states(base_pc_len: int, c, sa: State, sb: State) -> State:
    """join of two states that forked at pc length base_pc_len on condition c (sa: c true, sb: c false)"""
    pc = list(sa.pc[:base_pc_len])
    ea = sa.pc[base_pc_len + 1:]
    eb = sb.pc[base_pc_len + 1:]
    if ea:
        pc.append(z3.Implies(c, z3.And(*ea) if len(ea) > 1 else ea[0]))
    if eb:
        pc.append(z3.Implies(z3.Not(c), z3.And(*eb) if len(eb) > 1 else eb[0]))
    arr = {}
    # merged terms are *named* (fresh constant + defining equation) so that they stay usable inside quantifier patterns
    def named(x, y, tag):
        if z3.eq(x, y):
            return x
        k = z3.FreshConst(x.sort(), tag + '!m')
        pc.append(k == z3.If(c, x, y))
        return k
    for n in sa.h.arr:
        arr[n] = named(sa.h.arr[n], sb.h.arr[n], n)
    alloc = named(sa.h.alloc, sb.h.alloc, 'alloc')
    locs = {}
    for k in sa.locals:
        if k in sb.locals:
            m = merge_sv(c, sa.locals[k], sb.locals[k])
            if m.kind in ('ref', 'val', 'int', 'str') and m.t is not None and z3.is_app_of(m.t, z3.Z3_OP_ITE):
                kk = z3.FreshConst(m.t.sort(), k + '!m')
                pc.append(kk == m.t)
                m = SV(m.kind, kk, m.ty)
            locs[k] = m
    gh = {}
    for k in sa.ghost:
        if k in sb.ghost:
            x, y = sa.ghost[k], sb.ghost[k]
            if isinstance(x, z3.ExprRef) and isinstance(y, z3.ExprRef):
                gh[k] = x if z3.eq(x, y) else z3.If(c, x, y)
            elif x is y:
                gh[k] = x
    return State(H(sa.h.schema, arr, alloc), locs, pc, gh)
