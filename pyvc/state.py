"""pyvc.state — symbolic state, obligations, merging."""
from __future__ import annotations
import z3
from .theory import *


class Obligation:
    __slots__ = ('name', 'hyps', 'goal', 'kind', 'fn', 'note')

    def __init__(self, name, hyps, goal, kind, fn, note=''):
        self.name, self.hyps, self.goal, self.kind, self.fn, self.note = name, list(hyps), goal, kind, fn, note


class State:
    __slots__ = ('h', 'locals', 'pc', 'ghost')

    def __init__(self, h: H, locals=None, pc=None, ghost=None):
        self.h = h
        self.locals = dict(locals or {})
        self.pc = list(pc or [])
        self.ghost = dict(ghost or {})

    def fork(self):
        return State(self.h, self.locals, self.pc, self.ghost)

    def assume(self, f):
        if f is None:
            return
        if isinstance(f, bool):
            f = z3.BoolVal(f)
        if z3.is_true(f):
            return
        self.pc.append(f)

    def set_arr(self, name, term):
        self.h = self.h.set(name, term)

    def alloc_addr(self, cls_id: int):
        a = self.h.alloc
        h = self.h.with_(alloc=a + 1)
        h = h.set('cls', z3.Store(h.arr['cls'], a, z3.IntVal(cls_id)))
        h = h.set('own_obj', z3.Store(h.arr['own_obj'], a, z3.IntVal(-1)))
        self.h = h
        return a


class Exit:
    __slots__ = ('kind', 'value', 'state', 'exc', 'site')

    def __init__(self, kind, state, value=None, exc=None, site=''):
        self.kind, self.state, self.value, self.exc, self.site = kind, state, value, exc, site


def same_sv(a: SV, b: SV) -> bool:
    if a is b:
        return True
    if a.kind != b.kind:
        return False
    if a.kind == 'tuple':
        return len(a.elts) == len(b.elts) and all(same_sv(x, y) for x, y in zip(a.elts, b.elts))
    if a.kind == 'none':
        return True
    if a.kind in ('func', 'exc', 'cls', 'iter'):
        return a.py == b.py
    return a.t is not None and b.t is not None and z3.eq(a.t, b.t)


def merge_ty(a, b):
    if a is None or b is None:
        return None
    if a.kind == b.kind and a.cls == b.cls:
        return a
    return None


def merge_sv(c, a: SV, b: SV) -> SV:
    """value that is `a` when c holds else `b`"""
    if same_sv(a, b):
        return a if a.ty is not None or b.ty is None else b
    if a.kind == 'tuple' and b.kind == 'tuple' and len(a.elts) == len(b.elts):
        return sv_tuple([merge_sv(c, x, y) for x, y in zip(a.elts, b.elts)])
    if a.kind == b.kind and a.kind in ('bool', 'int', 'real', 'str', 'ref'):
        ty = merge_ty(a.ty, b.ty)
        return SV(a.kind, z3.If(c, a.t, b.t), ty)
    if a.kind in ('tuple', 'func', 'exc', 'cls', 'iter') or b.kind in ('tuple', 'func', 'exc', 'cls', 'iter'):
        raise Unsupported('merge of %s and %s' % (a.kind, b.kind))
    # mixed kinds -> Val; keep a type hint when one side is None and the other typed
    ty = None
    if a.kind == 'none' and b.ty is not None:
        ty = Opt(b.ty)
    elif b.kind == 'none' and a.ty is not None:
        ty = Opt(a.ty)
    elif a.kind == 'none' and b.kind in ('bool', 'int', 'real', 'str'):
        ty = T(b.kind, opt=True)
    elif b.kind == 'none' and a.kind in ('bool', 'int', 'real', 'str'):
        ty = T(a.kind, opt=True)
    elif a.kind == 'val' and b.kind == 'val':
        ty = a.ty if (a.ty is not None and b.ty is not None and repr(a.ty) == repr(b.ty)) else None
    elif a.kind == 'val' and a.ty is not None and (b.kind == 'none' or _fits(b, a.ty)):
        ty = a.ty
    elif b.kind == 'val' and b.ty is not None and (a.kind == 'none' or _fits(a, b.ty)):
        ty = b.ty
    return SV('val', z3.If(c, to_val(a), to_val(b)), ty)


def _fits(sv, ty):
    if sv.kind == 'ref':
        return ty.kind in ('obj', 'list', 'dict', 'set') and (sv.cls is None or sv.cls == ty.cls)
    return sv.kind == ty.kind


def merge_states(base_pc_len: int, c, sa: State, sb: State) -> State:
    """join of two states that forked at pc length base_pc_len on condition c (sa: c true, sb: c false)"""
    pc = list(sa.pc[:base_pc_len])
    ea = sa.pc[base_pc_len + 1:]
    eb = sb.pc[base_pc_len + 1:]
    if ea:
        pc.append(z3.Implies(c, z3.And(*ea) if len(ea) > 1 else ea[0]))
    if eb:
        pc.append(z3.Implies(z3.Not(c), z3.And(*eb) if len(eb) > 1 else eb[0]))
    arr = {}
    # merged terms are *named* (fresh constant + defining equation) so that they stay usable inside quantifier patterns
    def named(x, y, tag):
        if z3.eq(x, y):
            return x
        k = z3.FreshConst(x.sort(), tag + '!m')
        pc.append(k == z3.If(c, x, y))
        return k
    for n in sa.h.arr:
        arr[n] = named(sa.h.arr[n], sb.h.arr[n], n)
    alloc = named(sa.h.alloc, sb.h.alloc, 'alloc')
    locs = {}
    for k in sa.locals:
        if k in sb.locals:
            m = merge_sv(c, sa.locals[k], sb.locals[k])
            if m.kind in ('ref', 'val', 'int', 'str') and m.t is not None and z3.is_app_of(m.t, z3.Z3_OP_ITE):
                kk = z3.FreshConst(m.t.sort(), k + '!m')
                pc.append(kk == m.t)
                m = SV(m.kind, kk, m.ty)
            locs[k] = m
    gh = {}
    for k in sa.ghost:
        if k in sb.ghost:
            x, y = sa.ghost[k], sb.ghost[k]
            if isinstance(x, z3.ExprRef) and isinstance(y, z3.ExprRef):
                gh[k] = x if z3.eq(x, y) else z3.If(c, x, y)
            elif x is y:
                gh[k] = x
    return State(H(sa.h.schema, arr, alloc), locs, pc, gh)
