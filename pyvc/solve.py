"""pyvc.solve — discharge obligations: z3 (Python API, per-query process) first, cvc5 CLI for z3's unknowns."""
from __future__ import annotations
import multiprocessing, os, subprocess, tempfile, time
import z3
from .theory import string_axioms


def to_smt2(ob, extra_axioms=()):
    s = z3.Solver()
    for a in string_axioms():
        s.add(a)
    for a in extra_axioms:
        s.add(a)
    for h in ob.hyps:
        s.add(h)
    s.add(z3.Not(ob.goal))
    return s.to_smt2()


def _z3_check(smt, timeout_ms, mbqi, seed=0, eager=None):
    s = z3.Solver()
    s.set('timeout', timeout_ms)
    if seed:
        s.set('random_seed', seed)
        s.set('smt.random_seed', seed)
    if eager is not None:
        s.set('smt.qi.eager_threshold', float(eager))
    if not mbqi:
        s.set('smt.mbqi', False)
        s.set('auto_config', False)
    s.from_string(smt)
    r = s.check()
    if r == z3.unsat:
        return 'unsat', ''
    if r == z3.sat:
        try:
            return 'sat', _short_model(s.model())
        except Exception as e:
            return 'sat', 'model unavailable: %s' % e
    reason = s.reason_unknown()
    if 'incomplete' in reason:
        try:
            return 'saturated', 'E-matching saturated without contradiction (candidate counter-model): ' + _short_model(s.model())
        except Exception:
            return 'saturated', 'E-matching saturated without contradiction'
    return 'unknown', reason


def _solve_one_x(args):
    """thorough tier: additionally re-check every obligation z3 proved with cvc5 (independent second opinion)"""
    name, smt, timeout_ms, full = args
    r = _solve_one(args)
    second = ''
    if r[1] == 'unsat' and r[2].startswith('z3'):
        second = _cvc5(smt, 20)
    return r + (second,)


def _solve_one(args):
    """verdicts: unsat (proved) | sat (counter-model) | failed (E-matching saturated, no prover closed it: candidate
    counter-model attached) | unknown (timeouts only) | error"""
    name, smt, timeout_ms, full = args
    t0 = time.time()
    backend, note = 'z3-ematching', ''
    try:
        v, note = _z3_check(smt, timeout_ms, mbqi=False)
        if v not in ('unsat', 'sat'):
            # Neither a timeout nor a saturation of the E-matching run is definitive: both depend on the instantiation order
            # and on z3's cost cut-offs (qi.eager_threshold).  More attempts with other seeds / a higher cut-off; any `unsat`
            # is a proof.  Only when every attempt fails is the obligation handed to MBQI and cvc5 and then reported.
            for seed, eager in ((7, None), (23, 100), (0, 1000)):
                v_, note_ = _z3_check(smt, timeout_ms, mbqi=False, seed=seed, eager=eager)
                if v_ in ('unsat', 'sat'):
                    v, note = v_, note_
                    backend = 'z3-ematching(seed %d%s)' % (seed, ', eager_threshold %d' % eager if eager else '')
                    break
                if v_ == 'saturated' and v != 'saturated':
                    v, note = v_, note_
        if v in ('unsat', 'sat') or not full:
            return name, ('failed' if v == 'saturated' and full else v), backend, round(time.time() - t0, 3), note
        v2, note2 = _z3_check(smt, timeout_ms, mbqi=True)
        if v2 in ('unsat', 'sat'):
            return name, v2, 'z3-mbqi', round(time.time() - t0, 3), note2
        v3 = _cvc5(smt, max(5, timeout_ms // 1000))
        if v3 in ('unsat', 'sat'):
            return name, v3, 'cvc5', round(time.time() - t0, 3), ''
        return name, ('failed' if v == 'saturated' else 'unknown'), backend, round(time.time() - t0, 3), note or note2
    except Exception as e:
        return name, 'error', backend, round(time.time() - t0, 3), repr(e)[:300]


def _short_model(m, limit=4000):
    parts = []
    for d in m.decls():
        nm = d.name()
        if nm.startswith(('arg_', 'ghost_')) or '!' not in nm:
            parts.append('%s = %s' % (nm, str(m[d])[:300]))
    s = '; '.join(sorted(parts))
    return s[:limit]


def _cvc5(smt, timeout_s):
    try:
        with tempfile.NamedTemporaryFile('w', suffix='.smt2', delete=False) as f:
            f.write('(set-logic ALL)\n' + smt)
            path = f.name
        try:
            p = subprocess.run(['/usr/bin/cvc5', '--lang', 'smt2', '--tlimit=%d' % (timeout_s * 1000), path],
                               capture_output=True, text=True, timeout=timeout_s + 5)
            out = p.stdout.strip().split('\n')[0] if p.stdout.strip() else ''
            return out if out in ('sat', 'unsat') else 'unknown'
        finally:
            os.unlink(path)
    except Exception:
        return 'unknown'


def solve_all(obligations, timeout_s=10, jobs=None, use_cvc5=True, extra_axioms=(), cross_check=False):
    """returns dict name -> (verdict, backend, seconds, model)"""
    jobs = jobs or int(os.environ.get('PYVC_JOBS', '0') or 0) or min(16, os.cpu_count() or 1)
    tasks = []
    seen = {}
    for ob in obligations:
        nm = ob.name
        if nm in seen:
            seen[nm] += 1
            nm = '%s~%d' % (nm, seen[nm])
            ob.name = nm
        else:
            seen[nm] = 0
        smt_ = to_smt2(ob, extra_axioms)
        import hashlib
        QHASH[nm] = hashlib.sha256(smt_.encode()).hexdigest()[:16]
        tasks.append((nm, smt_, int((min(timeout_s, 2) if ob.kind == 'canary' else max(timeout_s, getattr(ob, 'budget', None) or 0)) * 1000), use_cvc5 and ob.kind != 'canary'))
    out = {}
    if not tasks:
        return out
    ctx = multiprocessing.get_context('fork')
    with ctx.Pool(min(jobs, len(tasks))) as pool:
        if cross_check:
            for (name, verdict, backend, secs, model, second) in pool.imap_unordered(_solve_one_x, tasks):
                out[name] = (verdict, backend, secs, model)
                CROSS[name] = second
        else:
            for (name, verdict, backend, secs, model) in pool.imap_unordered(_solve_one, tasks):
                out[name] = (verdict, backend, secs, model)
    return out


def solve_all_split(obligations, **kw):
    """solve_all, then a second chance for what did not discharge: a conjunctive goal (also under a leading universal
    quantifier) is split into its conjuncts, each proved separately — the negated conjunction is a disjunction on which
    E-matching may saturate early; if every part is proved the obligation is proved (back end `…+split`)"""
    from .state import Obligation
    from .symexec import conjuncts
    res = solve_all(obligations, **kw)
    retry, parts_of = [], {}
    for ob in obligations:
        v = res[ob.name]
        if v[0] in ('unsat', 'sat', 'error') or ob.kind == 'canary':
            continue
        ps = conjuncts(ob.goal)
        if len(ps) <= 1:
            continue
        subs = [Obligation('%s::part%d' % (ob.name, k), ob.hyps, g, ob.kind, ob.fn, ob.note) for k, g in enumerate(ps)]
        parts_of[ob.name] = [x.name for x in subs]
        retry.extend(subs)
    if retry:
        kw2 = dict(kw); kw2['cross_check'] = False
        r2 = solve_all(retry, **kw2)
        for name, subs in parts_of.items():
            if all(r2[x][0] == 'unsat' for x in subs):
                secs = round(res[name][2] + sum(r2[x][2] for x in subs), 3)
                res[name] = ('unsat', sorted({r2[x][1] for x in subs})[0] + '+split', secs, '')
    return res


CROSS = {}
QHASH = {}        # obligation name -> hash of the exact SMT query text (tells a re-run of an identical query from a changed one)
