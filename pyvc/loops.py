"""pyvc.loops — for/while loops cut at sidecar invariants; live-iterator semantics; `done` ghost."""
from __future__ import annotations
import ast
import z3
from .theory import *
from .state import *
from .contract import *


def ret_name(ex):
    """name of the local returned by the function's last statement (accumulators are addressed by role, not by name)"""
    last = ex.fn.node.body[-1]
    if isinstance(last, ast.Return) and isinstance(last.value, ast.Name):
        return last.value.id
    return None


def _assigned_names(body):
    out = set()
    for s in body:
        for n in ast.walk(s):
            if isinstance(n, ast.Name) and isinstance(n.ctx, (ast.Store, ast.Del)):
                out.add(n.id)
    return out


_MIH_CACHE = {}


def _mentions_intermediate_heap(f, h):
    """does formula f mention a version of a heap array (or of the allocation pointer) other than the pre-state's?"""
    names = set(h.arr) | {'alloc'}
    fid = f.get_id()
    if fid in _MIH_CACHE:
        return _MIH_CACHE[fid]
    seen, stack, hit = set(), [f], False
    while stack and not hit:
        e = stack.pop()
        i = e.get_id()
        if i in seen:
            continue
        seen.add(i)
        if z3.is_quantifier(e):
            stack.append(e.body())
            continue
        if z3.is_app(e):
            if e.num_args() == 0 and e.decl().kind() == z3.Z3_OP_UNINTERPRETED:
                nm = e.decl().name()
                if '!' in nm:
                    base, rest = nm.split('!', 1)
                    if base in names and rest != 'pre':
                        hit = True
            stack.extend(e.children())
    _MIH_CACHE[fid] = hit
    return hit


def _probe(ex, run_body, entry: State, extra_locals=()):
    """find the arrays / locals a loop body may modify, by running it (all paths) and comparing; to a fixed point"""
    mod_arr, mod_alloc = set(), False
    for _round in range(4):
        st = entry.fork()
        _havoc_into(ex, st, mod_arr, mod_alloc, set(), entry)
        ex.probing += 1
        saved_exits, saved_obl = ex.exits, ex.obligations
        ex.exits, ex.obligations = [], []
        h_before = st.h            # immutable snapshot: run_body mutates `st` in place
        fr_saved = ex.loop_frames
        from .symexec import LoopFrame
        fr = LoopFrame()
        ex.loop_frames = fr_saved + [fr]
        try:
            outs = run_body(st)
            finals = outs + fr.continues + fr.breaks + [x.state for x in ex.exits]
        finally:
            ex.probing -= 1
            ex.exits, ex.obligations = saved_exits, saved_obl
            ex.loop_frames = fr_saved
        grew = False
        for f in finals:
            for n in f.h.arr:
                if n not in mod_arr and not z3.eq(f.h.arr[n], h_before.arr[n]):
                    mod_arr.add(n); grew = True
            if not mod_alloc and not z3.eq(f.h.alloc, h_before.alloc):
                mod_alloc = True; grew = True
        if not grew:
            break
    return mod_arr, mod_alloc


def _havoc_into(ex, st: State, mod_arr, mod_alloc, mod_locals, entry: State, tag='lp'):
    for n in sorted(mod_arr):
        old_ = st.h.arr[n]
        st.set_arr(n, ex.fresh(st.h.arr[n].sort(), n + '!' + tag))
        if n == 'orig':
            # meta-invariant of the ghost origin map: written only at fresh addresses
            x_ = z3.Const('x!og', Addr)
            st.assume(z3.ForAll([x_], z3.Implies(z3.And(x_ >= 0, x_ < entry.h.alloc), z3.Select(st.h.arr[n], x_) == z3.Select(entry.h.arr[n], x_)),
                                patterns=[z3.Select(st.h.arr[n], x_)]))
    if mod_alloc:
        na = ex.fresh(z3.IntSort(), 'alloc!' + tag)
        st.assume(na >= entry.h.alloc)
        st.h = st.h.with_(alloc=na)
    for n in sorted(mod_locals):
        if n in entry.locals:
            st.locals[n] = _fresh_like(ex, entry.locals[n], n, st)
        else:
            st.locals.pop(n, None)


def _fresh_like(ex, sv: SV, name, st: State) -> SV:
    if sv.kind == 'tuple':
        return sv_tuple([_fresh_like(ex, x, name, st) for x in sv.elts])
    if sv.kind in ('none', 'func', 'cls', 'exc', 'iter'):
        return sv
    t = ex.fresh(sv.t.sort(), 'loc_' + name)
    r = SV(sv.kind, t, sv.ty)
    if r.kind == 'ref':
        st.assume(z3.And(t >= 0, t < st.h.alloc))
    if r.kind == 'val' and sv.ty is not None and sv.ty.kind != 'val':
        st.assume(tag_pred(t, sv.ty))
    return r


def _iter_source(ex, it: SV, st: State):
    """('list', addr, elem) | ('dict', addr, mode, dict SV) | ('static', [SV...])"""
    if it.kind == 'tuple':
        return ('static', it.elts)
    if it.kind == 'val' and it.ty is not None and it.ty.kind in ('list', 'dict'):
        it = sv_ref(ex.as_ref(it, st, 'iteration'), NonOpt(it.ty))
    if it.kind == 'val' and (it.ty is None or it.ty.kind == 'val'):
        # dynamically typed iterable: must be a list (anything else is outside the subset -> TypeError exit)
        ex.side_raise(st, 'TypeError', z3.Not(z3.And(is_VRef(it.t), st.h.cls(v_a(it.t)) == CLS_LIST)), 'iteration over a non-list')
        it = sv_ref(v_a(it.t), List(None))
    if it.kind == 'ref' and it.cls == 'list':
        return ('list', it.t, it.ty.elem if it.ty else None)
    if it.kind == 'ref' and it.cls == 'dict':
        return ('dict', it.t, 'keys', it)
    if it.kind == 'iter':
        return ('dict', it.py[1].t, it.py[0], it.py[1])
    raise Unsupported('iteration over %s/%s' % (it.kind, it.cls))


def _desugar_filter(s: ast.For):
    """`for x in filter(lambda v: P(v), L): body`  ==  `for x in L: if P(x): body`  (the lambda is applied to the loop target;
    the iteration order and the elements are those of L)"""
    it = s.iter
    if not (isinstance(it, ast.Call) and isinstance(it.func, ast.Name) and it.func.id == 'filter' and len(it.args) == 2 and not it.keywords
            and isinstance(it.args[0], ast.Lambda) and isinstance(s.target, ast.Name)):
        return None
    lam = it.args[0]
    if len(lam.args.args) != 1 or lam.args.defaults or lam.args.kwonlyargs or lam.args.vararg or lam.args.kwarg:
        return None
    pname = lam.args.args[0].arg

    class _R(ast.NodeTransformer):
        def visit_Name(self, n):
            return ast.copy_location(ast.Name(id=s.target.id, ctx=n.ctx), n) if n.id == pname else n
    import copy as _copy
    test = _R().visit(_copy.deepcopy(lam.body))
    body = [ast.copy_location(ast.If(test=test, body=s.body, orelse=[]), s)]
    new = ast.copy_location(ast.For(target=s.target, iter=it.args[1], body=body, orelse=[], type_comment=None), s)
    return ast.fix_missing_locations(new)


def exec_for(ex, s: ast.For, st: State) -> list[State]:
    if s.orelse:
        raise Unsupported('for/else')
    ds = _desugar_filter(s)
    if ds is not None:
        ex.loop_ids[id(ds)] = ex.loop_ids[id(s)]
        # (the body statements are shared objects: nested loops keep their ordinals)
        s = ds
    ordinal = ex.loop_ids[id(s)]
    named_heap(st)
    if isinstance(s.iter, (ast.List, ast.Tuple)) and not any(isinstance(x, ast.Starred) for x in s.iter.elts):
        # a display of statically known length: unrolled exactly (the temporary list itself is unobservable)
        src = ('static', [ex.ev(x, st) for x in s.iter.elts])
    else:
        it = ex.ev(s.iter, st)
        if it.kind in ('ref', 'val'):
            it = st.name_sv(it)
        src = _iter_source(ex, it, st)
    if src[0] == 'static':
        from .symexec import LoopFrame
        states, broken = [st], []
        for el in src[1]:
            nxt = []
            for x in states:
                fr = LoopFrame()
                ex.loop_frames.append(fr)
                try:
                    ex.bind_target(s.target, el, x)
                    outs = ex.exec_block(s.body, x)
                finally:
                    ex.loop_frames.pop()
                nxt.extend(outs + fr.continues)
                broken.extend(fr.breaks)
            states = nxt
        return states + broken
    spec = ex.contract.loops.get(ordinal)
    if spec is None:
        raise Unsupported('loop %d has no invariant in the contract' % ordinal)
    if spec.iter_src is not None and ast.unparse(s.iter) != spec.iter_src:
        raise Unsupported('loop %d iterates %r, the contract expects %r' % (ordinal, ast.unparse(s.iter), spec.iter_src))
    from .symexec import LoopFrame
    tag = 'loop%d' % ordinal
    kind = src[0]
    cont = src[1]
    h_entry = named_heap(st)

    def length(hh):
        return hh.len(cont) if kind == 'list' else hh.size(cont)

    def element(stx, i):
        if kind == 'list':
            v = stx.h.at(cont, i)
            stx.assume(stx.h.bag(cont, v) > 0)
            return v, ex.elem_sv(v, src[2], stx)
        d = src[3]
        kv = z3.Select(z3.Select(stx.h.arr['D_keyat'], cont), i)
        stx.assume(stx.h.has(cont, kv))
        key_sv = from_val(kv, d.ty.key if d.ty else None)
        if d.ty is not None and d.ty.key is not None and d.ty.key.kind != 'val':
            stx.assume(tag_pred(kv, d.ty.key))
        mode = src[2]
        if mode == 'keys':
            return kv, key_sv
        val_sv = ex.elem_sv(stx.h.val(cont, kv), d.ty.elem if d.ty else None, stx)
        if mode == 'values':
            return kv, val_sv
        return kv, sv_tuple([key_sv, val_sv])

    def run_body_from(stx):
        i = ex.fresh(z3.IntSort(), 'pi')
        stx.assume(i >= 0); stx.assume(i < length(stx.h))
        _, el = element(stx, i)
        ex.bind_target(s.target, el, stx)
        return ex.exec_block(s.body, stx)

    outer = ex.loop_ctx_stack[-1] if ex.loop_ctx_stack else None
    saved_ord = ex.loop_ordinal
    ex.loop_ctx_stack.append(LCtx(ex.h0, st.h, ex.args, ex.ghosts, h_entry, ex.fresh(z3.IntSort(), 'pi'),
                                  ex.fresh(BagSort, 'pdone'), cont, st.locals, outer,
                                  extra={'kind': kind, 'ret_name': ret_name(ex)}))
    try:
        mod_arr, mod_alloc = _probe(ex, run_body_from, st)
    finally:
        ex.loop_ctx_stack.pop()
    ex.loop_ordinal = saved_ord
    import os as _os
    if _os.environ.get('PYVC_TRACE_LOOPS') and not ex.probing:
        print('   [loop %d of %s] writes %s alloc=%s' % (ordinal, ex.contract.short, sorted(mod_arr), mod_alloc))
    mod_locals = _assigned_names(s.body) | _assigned_names([ast.Expr(s.target)])
    mod_locals |= {n.id for n in ast.walk(s.target) if isinstance(n, ast.Name)}

    def lctx(stx: State, i, done):
        named_heap(stx)
        return LCtx(ex.h0, stx.h, ex.args, ex.ghosts, h_entry, i, done, cont, stx.locals, outer,
                    extra={'kind': kind, 'ret_name': ret_name(ex),
                           'assigned': sorted(_assigned_names(s.body) - {n.id for n in ast.walk(s.target) if isinstance(n, ast.Name)})})

    def auto_inv(stx: State, i):
        out = [('index', z3.And(0 <= i, i <= length(stx.h)))]
        if spec.stable_iter:
            names = LIST_ARRAYS if kind == 'list' else DICT_ARRAYS
            for n in names:
                if n in mod_arr:
                    out.append(('iter-stable.' + n, z3.Select(stx.h.arr[n], cont) == z3.Select(h_entry.arr[n], cont)))
        return out

    # --- init
    zero, empty = z3.IntVal(0), EMPTY_BAG
    st.assume(length(st.h) >= 0)
    for (nm, f) in auto_inv(st, zero) + list(spec.inv(lctx(st, zero, empty))):
        ex.oblige('%s.inv.init.%s' % (tag, nm), st, f, 'inv.init')
    # --- arbitrary iteration
    head = st.fork()
    if spec.forget_history:
        head.pc = [f for f in head.pc if not _mentions_intermediate_heap(f, st.h)]
    _havoc_into(ex, head, mod_arr, mod_alloc, mod_locals, st, tag)
    if 'L_bag' in mod_arr:
        for f in list_axioms(head.h):
            head.assume(f)
    if mod_arr:
        for f in heap_closed(head.h, only=None if mod_alloc else set(mod_arr)):
            head.assume(f)
    for n, ty in spec.locals_ty.items():
        if n not in head.locals:
            head.locals[n] = _fresh_like(ex, from_sort(ex.fresh(ty.sort, n), ty), n, head)
    i = ex.fresh(z3.IntSort(), 'i')
    done = ex.fresh(BagSort, 'done')
    dv = z3.Const('v!dn', Val)
    head.assume(z3.ForAll([dv], z3.Select(done, dv) >= 0, patterns=[z3.Select(done, dv)]))
    if spec.stable_iter and kind == 'list':
        # list-theory facts about the processed prefix of an unmodified list: done <= bag
        head.assume(z3.ForAll([dv], z3.Select(done, dv) <= h_entry.bag(cont, dv), patterns=[z3.Select(done, dv)]))
        # ... and every element of the prefix [0, i) has been processed (done is the bag of that prefix: T2 coupling of at / bag)
        jq = z3.Int('j!dn')
        head.assume(z3.ForAll([jq], z3.Implies(z3.And(0 <= jq, jq < i), z3.Select(done, h_entry.at(cont, jq)) >= 1),
                              patterns=[h_entry.at(cont, jq)]))
    c_head = lctx(head, i, done)
    for (nm, f) in auto_inv(head, i) + list(spec.inv(c_head)):
        head.assume(f)
    # body
    body = head.fork()
    body.assume(i < length(body.h))
    elv, el = element(body, i)
    if spec.stable_iter and kind == 'list':
        body.assume(z3.Select(done, elv) + 1 <= h_entry.bag(cont, elv))      # the current element is not in the prefix count
    ex.bind_target(s.target, el, body)
    fr = LoopFrame()
    ex.loop_frames.append(fr)
    ex.loop_ctx_stack.append(c_head)
    try:
        outs = ex.exec_block(s.body, body)
    finally:
        ex.loop_frames.pop()
        ex.loop_ctx_stack.pop()
    done2 = z3.Store(done, elv, z3.Select(done, elv) + 1)
    for o in outs + fr.continues:
        # ground instance of the array axiom for the element just processed: gives E-matching the term done2[elv] (witness
        # of `exists processed element` goals)
        o.assume(z3.Select(done2, elv) == z3.Select(done, elv) + 1)
        # ... and for every element already known as processed: done2[v] is the trigger term of `exists processed element`
        # goals over the new bag, done[v] the term the induction hypothesis provides
        o.assume(z3.ForAll([dv], z3.Select(done2, dv) == z3.If(dv == elv, z3.Select(done, dv) + 1, z3.Select(done, dv)),
                           patterns=[z3.Select(done, dv)]))
        for (nm, f) in auto_inv(o, i + 1) + list(spec.inv(lctx(o, i + 1, done2))):
            ex.oblige('%s.inv.preserve.%s' % (tag, nm), o, f, 'inv.preserve')
    # exit
    exit_st = head.fork()
    exit_st.assume(i >= length(exit_st.h))
    if spec.stable_iter:
        if kind == 'list':
            exit_st.assume(done == h_entry.bagof(cont))
            # the same fact in quantified form, triggered by membership terms of the iterated list (gives E-matching the terms
            # done[v] on which invariants over the processed elements are triggered)
            pats = [h_entry.bag(cont, dv)]
            if ex.h0 is not None and not z3.eq(ex.h0.arr['L_bag'], h_entry.arr['L_bag']):
                pats.append(ex.h0.bag(cont, dv))        # contracts usually speak about membership in the pre-state
            exit_st.assume(z3.ForAll([dv], z3.Select(done, dv) == h_entry.bag(cont, dv), patterns=pats))
        else:
            kq = z3.Const('k!dx', Val)
            exit_st.assume(z3.ForAll([kq], z3.Select(done, kq) == z3.If(h_entry.has(cont, kq), 1, 0),
                                     patterns=[z3.Select(done, kq)]))
    exit_st.ghost['done%d' % ordinal] = done
    return [exit_st] + fr.breaks


def exec_while(ex, s: ast.While, st: State) -> list[State]:
    if s.orelse:
        raise Unsupported('while/else')
    ordinal = ex.loop_ids[id(s)]
    spec = ex.contract.loops.get(ordinal)
    if spec is None:
        raise Unsupported('loop %d has no invariant in the contract' % ordinal)
    from .symexec import LoopFrame
    tag = 'loop%d' % ordinal
    h_entry = named_heap(st)

    def run_body_from(stx):
        c = ex.truthy(ex.ev(s.test, stx), stx)
        stx.assume(c)
        return ex.exec_block(s.body, stx)

    saved_ord = ex.loop_ordinal
    mod_arr, mod_alloc = _probe(ex, run_body_from, st)
    ex.loop_ordinal = saved_ord
    mod_locals = _assigned_names(s.body)
    outer = ex.loop_ctx_stack[-1] if ex.loop_ctx_stack else None

    def lctx(stx):
        named_heap(stx)
        return LCtx(ex.h0, stx.h, ex.args, ex.ghosts, h_entry, None, None, None, stx.locals, outer, extra={'ret_name': ret_name(ex)})

    for (nm, f) in spec.inv(lctx(st)):
        ex.oblige('%s.inv.init.%s' % (tag, nm), st, f, 'inv.init')
    head = st.fork()
    _havoc_into(ex, head, mod_arr, mod_alloc, mod_locals, st, tag)
    if 'L_bag' in mod_arr:
        for f in list_axioms(head.h):
            head.assume(f)
    if mod_arr:
        for f in heap_closed(head.h, only=None if mod_alloc else set(mod_arr)):
            head.assume(f)
    for (nm, f) in spec.inv(lctx(head)):
        head.assume(f)
    body = head.fork()
    c = ex.truthy(ex.ev(s.test, body), body)
    body.assume(c)
    v0 = spec.variant(lctx(body)) if spec.variant else None
    fr = LoopFrame()
    ex.loop_frames.append(fr)
    try:
        outs = ex.exec_block(s.body, body)
    finally:
        ex.loop_frames.pop()
    for o in outs + fr.continues:
        for (nm, f) in spec.inv(lctx(o)):
            ex.oblige('%s.inv.preserve.%s' % (tag, nm), o, f, 'inv.preserve')
        if v0 is not None:
            v1 = spec.variant(lctx(o))
            ex.oblige('%s.term' % tag, o, z3.And(v0 >= 0, v1 < v0), 'term', 'loop variant decreases and is bounded below')
    if spec.variant is None and not ex.probing:
        if getattr(spec, 'term_unverified', False):
            pass        # listed as an unchecked assumption in the evidence (prover.run_property)
        else:
            ex.oblige('%s.term' % tag, st, z3.BoolVal(False), 'term', 'while loop without a variant')
    exit_st = head.fork()
    ce = ex.truthy(ex.ev(s.test, exit_st), exit_st)
    exit_st.assume(z3.Not(ce))
    return [exit_st] + fr.breaks
