"""regenerate MANIFEST.json from the table below (python3 tools_manifest.py); validates against the schema."""
import json, os
ROOT = os.path.dirname(os.path.abspath(__file__))
props = [json.loads(l) for l in open(os.path.join(ROOT, 'properties.jsonl'))]

TB = ("Trusted: z3/cvc5; the pyvc encoding of the Python subset (typed heap, list bag/len theory, identity equality EQ-ID, "
      "uninterpreted strings); extraction drops logging/docstrings/message text; HEAP-CLOSED and TYPES assumptions; assumed "
      "contracts on dependencies listed in the evidence. The bounded native floor is labelled bounded and never counted as proved.")

CLAIMS = {
 'C08': ('proof', "Every function of the apriori analysis (evaluate_*, propagate_* incl. the recursive contract with a well-founded measure, "
         "calculate_viability_and_necessity) is verified against sidecar contracts whose top-level post is the property: no equation violated, "
         "base nodes carry their status, every solution of the equations lies below the computed labelling (greatest fixed point), hence order "
         "independence. Obligations are regenerated from the real source on every run and discharged by z3/cvc5; a native bounded floor "
         "(all graphs <=2 nodes + random) replays counterexamples and stands in for anything undecided.", '4 C08, A.4'),
 'C12': ('proof', "query.py and the node predicates it uses are verified function by function (loop invariants over the done-bag, frame = only "
         "fresh / caller-supplied lists change); the clause 'incremental = recomputed' is lemma INC discharged over the two contracts. "
         "Bounded floor: all labelled graphs <=2-3 nodes, 2 attackers.", '4 C12, A.3'),
}

notes = {
 'C08': 'Requires labels all True at entry (fresh graph) and well-formed statuses; recursion depth of CPython not modelled (T8); '
        'termination by strict decrease of the finite set of True labels (T6). ' + TB,
 'C12': TB,
}
technique = "contract-based deductive verification: VCs generated from the real Python source (ast -> symbolic execution against sidecar contracts, modular calls, loop invariants) discharged by z3 / cvc5; native bounded floor as labelled stand-in and replay"

m = {"version": 1,
     "setup_cmd": "python3-vt -c \"import z3, sys; sys.path.insert(0,'.'); import pyvc.prover as p; p.build_registry(); print('pyvc ok, z3', z3.get_version_string())\" && /venv/bin/python -c \"import maltoolbox; print('repo importable')\" && mkdir -p evidence replays",
     "hooks": {"guard": "MALTOOLBOX_VERIF", "enable": "none needed: contracts are sidecar files under /verif/contracts keyed by module:qualname; the native floor patches nothing in /repo",
               "baseline_off_cmd": "cd /repo && /venv/bin/python -m pytest -ra -q -p no:cacheprovider --timeout=900 --continue-on-collection-errors",
               "source_commits": [], "add_only": True},
     "engines": [{"name": "pyvc", "path": "pyvc/", "serves_properties": sorted(CLAIMS),
                  "kind_free_text": "verification-condition generator for a Python subset over the real source + z3/cvc5; sidecar contracts in contracts/"},
                 {"name": "native-floor", "path": "native/", "serves_properties": sorted(CLAIMS),
                  "kind_free_text": "bounded small-scope enumeration on the real objects against reference models (labelled bounded; replay)"}],
     "checks": [], "not_applicable": []}
for p in props:
    pid = p['id']
    if pid in CLAIMS:
        cat, text, ref = CLAIMS[pid]
        m['checks'].append({
            "property_id": pid, "quick_cmd": "./check %s --tier quick" % pid, "thorough_cmd": "./check %s --tier thorough" % pid,
            "evidence_file": "evidence/%s.json" % pid, "replay_cmd_template": "./check --replay {path}", "engine": "pyvc",
            "level_claimed": {"category": cat, "text": text, "design_ref": ref}, "level_note": notes[pid], "technique": technique})
    else:
        m['not_applicable'].append({"property_id": pid, "reason": "check under construction in this session (contracts + floor being built; see DESIGN.md section 8); not yet claimed"})
json.dump(m, open(os.path.join(ROOT, 'MANIFEST.json'), 'w'), indent=1)
try:
    import jsonschema
    jsonschema.validate(m, json.load(open('/root/.vp/MANIFEST.schema.json')))
    print('MANIFEST valid;', len(m['checks']), 'checks')
except ImportError:
    print('written (jsonschema not available to validate)')
