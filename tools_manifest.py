"""regenerate MANIFEST.json from the table below (python3 tools_manifest.py); validates against the schema."""
import json, os
ROOT = os.path.dirname(os.path.abspath(__file__))
props = [json.loads(l) for l in open(os.path.join(ROOT, 'properties.jsonl'))]

TB = ("Trusted: z3/cvc5; the pyvc encoding of the Python subset (typed heap, list bag/len theory, identity equality EQ-ID, "
      "uninterpreted strings); extraction drops logging/docstrings/message text; HEAP-CLOSED and TYPES assumptions; assumed "
      "contracts on dependencies listed in the evidence. The bounded native floor is labelled bounded and never counted as proved.")

DED = ("contract-based deductive verification of the real source (pyvc: ast -> symbolic execution against sidecar contracts -> z3/cvc5), "
       "with the native bounded floor as labelled stand-in and replay")
CLAIMS = {
 'C01': ('other', "Deductive: the inheritance fold _get_attacks_for_asset_type (which reaches expressions a step resolves to for a type); the evaluator _process_step_expression is verified arm by arm against the spec function Sem (induction on expression rank) for transitive-free expressions - for records of the specification AND for faithful deep copies of them (what generation passes; stated over the ghost origin of the copy), "
         "Model.get_associated_assets_by_field_name against field navigation on the model view (self-links, both orientations), is_subasset_of against the "
         "reflexive-transitive closure incl. termination, _get_variable_for_asset_type_by_name against the nearest declaration up the inheritance chain of the specification (raises iff none). Bounded: the transitive arm, the linking loop of _generate_graph and termination on cyclic models are decided by the floor "
         "(languages <=3 types, expression depth <=3, models <=3 assets incl. cycles and self-links).", '4 C01'),
 'C02': ('other', "Deductive: the inheritance fold _get_attacks_for_asset_type (each exposed step is a copy of the declaration the property names: type, TTC, tags, meta of the nearest '->' / first declaration); add_node (id assignment, duplicate-id rejection, both indexes), full_name, the lookups and lemma LOOKUP (a lookup returns exactly the member with that key). "
         "Bounded: the node loop of _generate_graph (one node per asset x step, attributes, existence status) is decided by the floor.", '4 C02'),
 'C03': ('other', "Deductive: _get_attacks_for_asset_type is verified against the fold of the property statement - the result has exactly the step names the type declares or inherits, every entry is "
         "a copy of its base declaration (nearest '->' redefinition on the way up, else the top-most declaration), its expression list is the inherited sequence, replaced by '->', extended by '+>' "
         "and left untouched by a redefinition without reaches (sequences of specification records, through a ghost origin map on copies) - and is pure (nothing allocated before the call is written), "
         "separated (everything reachable from the result is fresh) and terminating, against the assumed contract DEEPCOPY. Since the result is a function of the unchanged specification, repeated "
         "lookups agree. Bounded: lookups interleaved with language-graph regenerations and attack-graph generations (those callers are not under contract) by the floor over all chains of depth <=4.", '4 C03'),
 'C04': ('other', "Deductive (small part): MalCompiler.compile - the per-file driver that resolves includes relative to the including file's directory state and restores it on every exit - is verified "
         "against the assumed ANTLR contract (shared with C17). Bounded (the bulk): printer -> real compiler round trip over enumerated and random specifications (TTC arithmetic, set / collect / "
         "transitive / subtype / variable expressions, multiplicities, meta), include layouts incl. same include string in different directories, name-sharing associations, coreLang .mar. "
         "The visitor methods are not under contract.", '4 C04, 5'),
 'C05': ('other', "Deductive: wf_model (ownership/separation of every list, unique ids and names, index sets = ids/names of the live assets, back-references <-> association membership, "
         "type buckets, entry points only on live assets, one tuple per asset) is a representation invariant: every public mutator of Model and AttackerAttachment (add_asset, remove_asset, "
         "add_association incl. _validate_association and association_exists_between_assets, remove_association, remove_asset_from_association, add_attacker, remove_attacker, add_entry_point, "
         "remove_entry_point + lemma EP-WF) is verified to preserve it, to change the abstract view by exactly its delta and to leave the pre-state region unchanged when it raises; "
         "get_associated_assets_by_field_name == field navigation, lookups return the member with the key. All under the ASSUMED object model of python_jsonschema_objects with identity equality "
         "(the floor shows that assumption to be false for nameless assets: known findings), add_asset requires an asset that is not yet in the model, add_attacker requires entry points on model "
         "assets (known finding), termination of the name-uniquification loop is not proved. Bounded: all histories of <=3 API operations against an abstract reference model, random to 12.", '4 C05, 9.2(12)'),
 'C06': ('other', "Deductive: LanguageClassesFactory._generate_assets builds, for every asset type of the language graph, a schema entry with exactly the properties id, type (default = the type name) and one numeric property per "
         "defense step with range [0, 1] and default 1.0 iff the defense is declared Enabled (else 0.0), an allOf reference per super asset and one oneOf reference per asset; get_association_by_signature returns the name under which a (name, left type, right type) signature is registered (the name itself when unambiguous, else the <name>_<left>_<right> sub-entry or its flipped form; LookupError otherwise); and the rejection half that lives in model.py - _validate_association returns normally iff the association is new, every member is an asset of the model, no asset repeats "
         "inside a field and no (left, right) pair is already linked by an association of the same class (association_exists_between_assets inspects EVERY association of that class); "
         "add_association raises iff not valid and leaves the model unchanged then; 'no pair of assets is linked twice by associations of one class' and 'no asset repeats inside a field' are clauses of the representation invariant wf_model (M6, M3) that every mutator preserves. Bounded: the association schemas (_generate_associations uses nested closures: outside the verified subset), the classes generated from the schema, type / multiplicity / range rejections, which are "
         "enforced by python_jsonschema_objects (assumed third party): all languages of a 2-type family + random 3-type languages.", '4 C06'),
 'C07': ('other', "Deductive (load side, partial): add_asset, add_association (+ validation), add_attacker - the mutators the (assumed) _from_dict rebuilds a model with - have exact effects. Deductive (save side): Model._to_dict yields metadata, one entry per asset keyed by its id (name, type; asset_to_dict), one list element per association in order "
         "(association_to_dict: class name -> {left field: ids, right field: ids} in field order, extras copied) and one entry per attacker keyed by its id (attacker_to_dict: name, "
         "entry_points {asset id: {'attack_steps': the step list}}) - under the precondition that attacker ids are pairwise different (the known finding is a model violating it); "
         "get_asset_by_id (used by _from_dict to resolve ids); the file layer's dispatch: save_dict_to_file / Model.save_to_file write the document under the name in the format of the extension (.yml/.yaml -> YAML, .json -> JSON, else ValueError and nothing written), Model.load_from_file reads with the loader of the extension and returns what _from_dict makes of the written document (lemma FILE-RT: same name => same format) - over a ghost file system, with ASSUMED contracts for the four json / yaml wrappers and an abstract one for _from_dict. The defense values (get_asset_defenses: python_jsonschema_objects internals) are assumed. "
         "Bounded (load side and files): _from_dict, API-built and hand-written models x {json, yml, yaml}, save/load/modify/save/load sequences; json / yaml are external.", '4 C07'),
 'C08': ('proof', "Every function of the apriori analysis (evaluate_*, propagate_* incl. the recursive contract with a well-founded measure, calculate_viability_and_necessity) is verified against "
         "sidecar contracts whose top-level post is the property: no equation violated, base nodes carry their status, every solution lies below the computed labelling (greatest fixed point), "
         "hence order independence. The floor (all graphs <=2 nodes + random) replays counterexamples.", '4 C08, A.4'),
 'C09': ('other', "Deductive: add_node, remove_node, add_attacker, remove_attacker, compromise/undo (+ lemma COMP-WF), prune, the lookups preserve wf_graph (W0..W5) and have exact effects; "
         "raising calls leave the observable state unchanged. regenerate_graph establishes the precondition of (abstract) generation: the state of a fresh empty graph, as __init__ does. Bounded: what generation then does (regenerate = fresh), attach_attackers, deepcopy, save/load inside histories (all histories <=3 operations on graphs <=3 nodes).", '4 C09, A.5'),
 'C10': ('other', "Deductive: add_node and add_attacker - the two mutators the (assumed) _from_dict rebuilds a graph with - have exact effects (ids honoured, reached steps = exactly the listed ones); AttackGraphNode.to_dict, Attacker.to_dict and AttackGraph._to_dict are verified against the dict encoding (typed fields, tags as a fresh list of str, id -> full-name maps, "
         "one collision-free entry per node / attacker). AttackGraph.save_to_file / load_from_file dispatch on the extension like the model's (ghost file system, assumed json / yaml wrappers, abstract _from_dict; lemma FILE-RT). Bounded: _from_dict and the real files by the floor: graphs <=4 nodes x {json, yml, dict} x {model, no model}.", '4 C10'),
 'C11': ('other', "Deductive: Attacker.compromise / undo_compromise and the node-side delegates (exact delta, idempotence), lemma COMP-WF, remove_attacker (no node stays compromised), add_attacker. "
         "Bounded: attach_attackers (contract in progress) by the floor: 2 attackers x 3 nodes, sequences <=5, 6342 attach scenarios.", '4 C11'),
 'C12': ('proof', "query.py and the node predicates it uses are verified function by function (loop invariants over the done-bag, frame = only fresh / caller-supplied lists change); "
         "'incremental = recomputed' is lemma INC discharged over the two contracts.", '4 C12, A.3'),
 'C13': ('proof', "prune_unviable_and_unnecessary_nodes and AttackGraph.remove_node are verified: exactly the prunable nodes are removed, labels are outside the frame, wf_graph (incl. attackers' "
         "references) is preserved. Floor: all labelled graphs <=3 nodes.", '4 C13'),
 'C14': ('other', "Deductive: AttackGraphNode.__deepcopy__ (fresh node, fresh empty link lists, tags / extras / ttc / attributes fresh and separated from the original, asset shared, memo updated) "
         "against the assumed contract DEEPCOPY for plain data; Attacker.__deepcopy__, AttackGraph.__init__ and AttackGraph.__deepcopy__ (top-level copy, empty private memo): the copy is a fresh graph "
         "sharing only model / language / assets, the memo is an isomorphism onto fresh node and attacker copies with equal scalar fields, node order, all link lists, entry / reached lists and the three "
         "indexes are the element-wise images, per-node data (tags / extras / ttc / attributes) has the same first-level content in fresh containers, counters equal, nothing old is written "
         "except the memo (assumed: DEEPCOPY-REFS, DEEPCOPY-ATTACKERS, KEEP-ALIVE[-OPAQUE], ABSTRACT-GEN). "
         "Bounded: wf of the copy as one predicate and independence under later mutations by the floor (graphs <=3 nodes, 28 mutations).", '4 C14'),
 'C15': ('other', "Deductive: the query layer of the language graph - is_subasset_of == reflexive-transitive closure of `extends` (with termination), get_all_superassets / get_all_subassets == the ancestors / descendants "
         "(as sets, the asset itself first), get_all_common_superassets == names of the common ancestors, get_asset_by_name, the association helpers (contains_fieldname, get_opposite_fieldname, contains_asset, "
         "get_opposite_asset: left end first, sub-type aware) and get_association_by_fields_and_assets (first association matching both ends in either orientation). Bounded: construction of the language graph "
         "(LanguageGraph._generate_graph, process_step_expression typing) and the over-approximation of attack-graph edges: all language structures over <=3 types incl. ill-formed ones.", '4 C15'),
 'C16': ('other', "Deductive: the frame part — _get_attacks_for_asset_type writes nothing allocated before the call (language specification untouched), its result is fresh and is a function of the specification only (see C03). Bounded: same-process, "
         "fresh-process (hash seeds) and wrapper determinism by the floor.", '4 C16'),
 'C17': ('other', "Deductive: MalCompiler.compile returns normally only if the file has no lexer error, no parser error, no unparsed tail and no malformed include, and restores its path state on every exit "
         "- verified against an ASSUMED contract of the ANTLR runtime (errors are reported to the registered listeners; a raising listener propagates) and an assumed contract of the visitor for includes. "
         "Bounded: token-level mutants of valid sources that the grammar itself rejects (root and included files) by the floor.", '4 C17'),
 'C18': ('other', "Deductive (small part): LanguageGraph.get_association_by_fields_and_assets and LanguageClassesFactory.get_association_by_signature, through which the securiCAD loader resolves every link (first association whose two ends match the field names and asset "
         "types in either orientation, sub-types accepted; LookupError iff an asset type is unknown). Bounded (the bulk): the loaders themselves use nested closures, dynamic class construction of "
         "python_jsonschema_objects and zip / json / yaml - outside the verified subset: inverse translation of native models into the 0.0.39 layout and .sCAD archives.", '4 C18'),
 'C19': ('other', "Deductive (small part): LanguageGraph.get_association_by_fields_and_assets and LanguageClassesFactory.get_association_by_signature, through which get_model rebuilds every link read back from the database (see C18). Bounded (the bulk): "
         "ingest_model / ingest_attack_graph / get_model against a recording stand-in for the py2neo driver (external); the three-level pair loop of ingest_model was judged out of reach for the "
         "E-matching based prover (same shape as attach_attackers, which did not converge).", '4 C19'),
}
TB2 = TB
notes = {k: TB2 for k in CLAIMS}
notes['C08'] = 'Requires labels all True at entry (fresh graph) and well-formed statuses; CPython recursion depth not modelled (T8); termination by strict decrease of a finite set (T6). ' + TB
technique = DED

m = {"version": 1,
     "setup_cmd": "python3-vt -c \"import z3, sys; sys.path.insert(0,'.'); import pyvc.prover as p; p.build_registry(); print('pyvc ok, z3', z3.get_version_string())\" && /venv/bin/python -c \"import maltoolbox; print('repo importable')\" && mkdir -p evidence replays",
     "hooks": {"guard": "MALTOOLBOX_VERIF", "enable": "none needed: contracts are sidecar files under /verif/contracts keyed by module:qualname; the native floor patches nothing in /repo",
               "baseline_off_cmd": "cd /repo && /venv/bin/python -m pytest -ra -q -p no:cacheprovider --timeout=900 --continue-on-collection-errors",
               "source_commits": [], "add_only": True},
     "engines": [{"name": "pyvc", "path": "pyvc/", "serves_properties": sorted(CLAIMS),
                  "kind_free_text": "verification-condition generator for a Python subset over the real source + z3/cvc5; sidecar contracts in contracts/"},
                 {"name": "native-floor", "path": "native/", "serves_properties": sorted(CLAIMS),
                  "kind_free_text": "bounded small-scope enumeration on the real objects against reference models (labelled bounded; replay)"}],
     "checks": [], "not_applicable": []}
for p in props:
    pid = p['id']
    if pid in CLAIMS:
        cat, text, ref = CLAIMS[pid]
        m['checks'].append({
            "property_id": pid, "quick_cmd": "./check %s --tier quick" % pid, "thorough_cmd": "./check %s --tier thorough" % pid,
            "evidence_file": "evidence/%s.json" % pid, "replay_cmd_template": "./check --replay {path}", "engine": "pyvc" if cat != "exploration" else "native-floor",
            "level_claimed": {"category": cat, "text": text, "design_ref": ref}, "level_note": notes[pid], "technique": technique if cat != "exploration" else "bounded stand-in only (small-scope exhaustive + seeded random on the real objects against a reference model); contracts for this property not yet written"})
    else:
        m['not_applicable'].append({"property_id": pid, "reason": "check under construction in this session (contracts + floor being built; see DESIGN.md section 8); not yet claimed"})
json.dump(m, open(os.path.join(ROOT, 'MANIFEST.json'), 'w'), indent=1)
try:
    import jsonschema
    jsonschema.validate(m, json.load(open('/root/.vp/MANIFEST.schema.json')))
    print('MANIFEST valid;', len(m['checks']), 'checks')
except ImportError:
    print('written (jsonschema not available to validate)')
# consistency with the evidence of the last run
for c in m['checks']:
    p = os.path.join(ROOT, c['evidence_file'])
    if os.path.exists(p):
        lvl = json.load(open(p))['level']
        if lvl != c['level_claimed']['category']:
            print('WARNING: %s claims %s but the last evidence says %s' % (c['property_id'], c['level_claimed']['category'], lvl))
