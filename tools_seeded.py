"""
Confirm seeded changes delivered by the independent sub-agents and run the checks against them.

  python3 tools_seeded.py confirm /tmp/seedwork/out/C08-1 [...]     confirm (tests pass, demo fails with / passes without), copy to
                                                                   seeded/<name>/, run ./check <prop> with the change applied to /repo, undo
  python3 tools_seeded.py rerun [name ...]                          re-run the checks against already kept changes (seeded/*)
Results are recorded in seeded/<name>/meta.json under "verif".
"""
import json, os, shutil, subprocess, sys, time, re

ROOT = os.path.dirname(os.path.abspath(__file__))
SCRATCH = '/tmp/seedwork/wt-verify'


def sh(cmd, cwd=None, env=None, timeout=1800):
    e = dict(os.environ)
    e.update(env or {})
    p = subprocess.run(cmd, shell=True, cwd=cwd, env=e, capture_output=True, text=True, timeout=timeout)
    return p.returncode, (p.stdout + p.stderr)


def confirm(src):
    name = os.path.basename(src.rstrip('/'))
    patch = os.path.join(src, 'patch.diff')
    demo = os.path.join(src, 'demo.py')
    meta = json.load(open(os.path.join(src, 'meta.json')))
    if not os.path.isdir(SCRATCH):
        sh('git -C /repo worktree add -f %s HEAD -q' % SCRATCH)
    sh('git checkout -q --detach %s && git checkout -- . && git clean -fdq' % subprocess.check_output(
        'git -C /repo rev-parse HEAD', shell=True, text=True).strip(), cwd=SCRATCH)
    env = {'PYTHONPATH': SCRATCH}
    rc0, out0 = sh('timeout 300 /venv/bin/python %s %s' % (demo, SCRATCH), cwd=SCRATCH, env=env)
    rc, out = sh('git apply --check %s && git apply %s' % (patch, patch), cwd=SCRATCH)
    if rc != 0:
        return name, None, 'patch does not apply: ' + out[-300:]
    rct, outt = sh('timeout 900 /venv/bin/python -m pytest -q -p no:cacheprovider tests 2>&1 | tail -3', cwd=SCRATCH, env=env)
    rc1, out1 = sh('timeout 300 /venv/bin/python %s %s' % (demo, SCRATCH), cwd=SCRATCH, env=env)
    sh('git checkout -- . && git clean -fdq', cwd=SCRATCH)
    tests_ok = ' passed' in outt and 'failed' not in outt
    ok = rc0 == 0 and rc1 != 0 and tests_ok
    info = {'demo_without_change_exit': rc0, 'demo_with_change_exit': rc1, 'tests_with_change': outt.strip().split('\n')[-1],
            'confirmed': ok, 'confirmed_at_repo_head': subprocess.check_output('git -C /repo rev-parse --short HEAD', shell=True, text=True).strip()}
    if not ok:
        return name, None, 'NOT CONFIRMED: ' + json.dumps(info)
    dst = os.path.join(ROOT, 'seeded', name)
    os.makedirs(dst, exist_ok=True)
    shutil.copy(patch, os.path.join(dst, 'patch.diff'))
    shutil.copy(demo, os.path.join(dst, 'demo.py'))
    meta['confirmation'] = info
    meta['what_was_run'] = ['git apply patch.diff in a scratch worktree of /repo HEAD', 'pytest tests (must pass)',
                            'demo.py with the change (must fail) and without (must pass)', './check <property> with the change applied to /repo, then git checkout -- .']
    json.dump(meta, open(os.path.join(dst, 'meta.json'), 'w'), indent=1)
    return name, dst, 'confirmed'


def run_check(dst, extra_props=()):
    meta = json.load(open(os.path.join(dst, 'meta.json')))
    prop = meta['property']
    patch = os.path.join(dst, 'patch.diff')
    rc, out = sh('git -C /repo status --porcelain')
    if out.strip():
        raise SystemExit('/repo is not clean: ' + out)
    rc, out = sh('git -C /repo apply %s' % patch)
    if rc != 0:
        return {'error': 'patch does not apply to /repo: ' + out[-200:]}
    res = {}
    try:
        for p in [prop] + list(extra_props):
            t0 = time.time()
            rc, out = sh('./check %s --tier quick' % p, cwd=ROOT, timeout=1200)
            viol = [l for l in out.split('\n') if l.startswith('VIOLATION')]
            detail = [l.strip() for l in out.split('\n') if l.startswith('    ')]
            und = [l for l in out.split('\n') if l.startswith('UNDECIDED')]
            by = sorted({('deductive' if 'obligation' in d.split(':')[0] else 'floor') for d in detail})
            res[p] = {'exit': rc, 'violations': len(viol), 'detected_by': by, 'first': (viol[:1] + detail[:2]), 'undecided': und[:3],
                      'no_failing_input': sum('no-failing-input-found' in v for v in viol), 'wall_s': round(time.time() - t0, 1)}
    finally:
        sh('git -C /repo checkout -- . && git -C /repo clean -fdq maltoolbox')
    meta['verif'] = res
    json.dump(meta, open(os.path.join(dst, 'meta.json'), 'w'), indent=1)
    return res


def run_check_scratch(dst, jobs=5):
    """like run_check, but on a scratch copy of /repo (outside /repo and /verif) through VERIF_REPO: several can run at once"""
    meta = json.load(open(os.path.join(dst, 'meta.json')))
    prop = meta['property']
    name = os.path.basename(dst)
    d = os.path.join('/tmp/seedrun', name)
    shutil.rmtree(d, ignore_errors=True)
    os.makedirs('/tmp/seedrun', exist_ok=True)
    shutil.copytree('/repo', d, ignore=shutil.ignore_patterns('.git'))
    rc, out = sh('git apply %s' % os.path.join(dst, 'patch.diff'), cwd=d)
    if rc != 0:
        shutil.rmtree(d, ignore_errors=True)
        return name, {'error': 'patch does not apply: ' + out[-200:]}
    t0 = time.time()
    rc, out = sh('./check %s --tier quick' % prop, cwd=ROOT, env={'VERIF_REPO': d, 'PYVC_JOBS': str(jobs), 'VERIF_JOBS': str(jobs)}, timeout=2400)
    shutil.rmtree(d, ignore_errors=True)
    viol = [l for l in out.split('\n') if l.startswith('VIOLATION')]
    detail = [l.strip() for l in out.split('\n') if l.startswith('    ')]
    und = [l for l in out.split('\n') if l.startswith('UNDECIDED')]
    by = sorted({('deductive' if 'obligation' in x.split(':')[0] else 'floor') for x in detail})
    res = {prop: {'exit': rc, 'violations': len(viol), 'detected_by': by, 'first': (viol[:1] + detail[:2]), 'undecided': und[:3],
                  'no_failing_input': sum('no-failing-input-found' in v for v in viol), 'wall_s': round(time.time() - t0, 1)}}
    meta['verif'] = res
    json.dump(meta, open(os.path.join(dst, 'meta.json'), 'w'), indent=1)
    return name, res


def run_harmless(src, name, props, jobs=8):
    """a behaviour-preserving patch: keep it as seeded/<name>/ and run the quick checks of `props` against a scratch copy; expected: exit 0 everywhere"""
    dst = os.path.join(ROOT, 'seeded', name)
    os.makedirs(dst, exist_ok=True)
    shutil.copy(os.path.join(src, 'patch.diff'), os.path.join(dst, 'patch.diff'))
    meta = json.load(open(os.path.join(src, 'meta.json')))
    meta['property'] = None
    meta['harmless'] = True
    d = os.path.join('/tmp/seedrun', name)
    shutil.rmtree(d, ignore_errors=True)
    os.makedirs('/tmp/seedrun', exist_ok=True)
    shutil.copytree('/repo', d, ignore=shutil.ignore_patterns('.git'))
    rc, out = sh('git apply %s' % os.path.join(dst, 'patch.diff'), cwd=d)
    if rc != 0:
        shutil.rmtree(d, ignore_errors=True)
        raise SystemExit('patch does not apply: ' + out[-300:])
    rct, outt = sh('timeout 900 /venv/bin/python -m pytest -q -p no:cacheprovider tests 2>&1 | tail -3', cwd=d, env={'PYTHONPATH': d})
    meta['tests_with_change'] = outt.strip().split('\n')[-1]
    res = {}
    for p_ in props:
        t0 = time.time()
        rc, out = sh('./check %s --tier quick' % p_, cwd=ROOT, env={'VERIF_REPO': d, 'PYVC_JOBS': str(jobs), 'VERIF_JOBS': str(jobs)}, timeout=3000)
        viol = [l for l in out.split('\n') if l.startswith('VIOLATION')]
        und = [l for l in out.split('\n') if l.startswith('UNDECIDED')]
        detail = [l.strip() for l in out.split('\n') if l.startswith('    ')]
        res[p_] = {'exit': rc, 'violations': len(viol), 'first': (viol[:1] + detail[:2]), 'undecided': [u[:160] for u in und[:6]], 'wall_s': round(time.time() - t0, 1)}
        print(name, p_, 'exit', rc, len(viol), 'violations', len(und), 'undecided', res[p_]['wall_s'], 's', flush=True)
        for l in res[p_]['first']:
            print('      ', l[:220], flush=True)
    shutil.rmtree(d, ignore_errors=True)
    prev = {}
    try:
        prev = json.load(open(os.path.join(dst, 'meta.json'))).get('verif', {})
    except Exception:
        pass
    prev.update(res)
    meta['verif'] = prev
    json.dump(meta, open(os.path.join(dst, 'meta.json'), 'w'), indent=1)
    return res


if __name__ == '__main__':
    mode = sys.argv[1]
    if mode == 'harmless':
        run_harmless(sys.argv[2], sys.argv[3], sys.argv[4:])
        sys.exit(0)
    if mode == 'prun':
        # parallel re-run on scratch copies: one wave per mutant number so that two runs never share a property (evidence file)
        from concurrent.futures import ThreadPoolExecutor
        names = sys.argv[2:] or sorted(n for n in os.listdir(os.path.join(ROOT, 'seeded')) if not n.startswith('harmless'))
        waves = {}
        for n in names:
            waves.setdefault(n.split('-')[-1], []).append(n)
        for w in sorted(waves):
            with ThreadPoolExecutor(3) as ex:
                for name, r in ex.map(lambda n: run_check_scratch(os.path.join(ROOT, 'seeded', n)), waves[w]):
                    for p_, v in (r.items() if 'error' not in r else []):
                        print(name, p_, 'exit', v['exit'], v['violations'], 'violations', v['detected_by'], v['wall_s'], 's', flush=True)
                    if 'error' in r:
                        print(name, r, flush=True)
        sys.exit(0)
    if mode == 'confirm':
        for src in sys.argv[2:]:
            name, dst, msg = confirm(src)
            print(name, msg)
            if dst:
                r = run_check(dst)
                for p, v in r.items() if isinstance(r, dict) and 'error' not in r else []:
                    print('   ', p, 'exit', v['exit'], v['violations'], 'violations', v['detected_by'], v['wall_s'], 's')
                    for l in v['first']:
                        print('       ', l[:200])
                if 'error' in r:
                    print('   ', r)
    elif mode == 'rerun':
        names = sys.argv[2:] or sorted(os.listdir(os.path.join(ROOT, 'seeded')))
        for n in names:
            dst = os.path.join(ROOT, 'seeded', n)
            if not os.path.exists(os.path.join(dst, 'patch.diff')) or n.startswith('harmless'):
                continue
            r = run_check(dst)
            for p, v in r.items() if 'error' not in r else []:
                print(n, p, 'exit', v['exit'], v['violations'], 'violations', v['detected_by'], v['wall_s'], 's')
